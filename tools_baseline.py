#!/usr/bin/env python3
"""Runs `go test -json` in a tree and checks that every stable_pass test of BASELINE.json (for the packages run) still passes.
usage: tools_baseline.py <repo-dir> [pkg-pattern ...]   (default ./...)"""
import json, subprocess, sys, os
d = sys.argv[1]
pats = sys.argv[2:] or ["./..."]
base = json.load(open("/root/.vp/BASELINE.json"))
stable = set(base["stable_pass"])
env = dict(os.environ)
env.pop("GOFLAGS", None)
if not os.path.exists(os.path.join(d, "go.work")):
    env["GOFLAGS"] = "-mod=mod"
p = subprocess.run(["go", "test", "-json", "-vet=off", "-count=1", "-timeout", "25m"] + pats, cwd=d, env=env, stdout=subprocess.PIPE, stderr=subprocess.DEVNULL, text=True)
res = {}
pkgs = set()
for line in p.stdout.splitlines():
    try:
        e = json.loads(line)
    except Exception:
        continue
    if e.get("Package"):
        pkgs.add(e["Package"])
    if e.get("Test") and e.get("Action") in ("pass", "fail", "skip"):
        res[e["Package"] + "::" + e["Test"]] = e["Action"]
bad = [t for t in sorted(stable) if t.split("::")[0] in pkgs and res.get(t) != "pass"]
# wall-clock tests (TestPathological) fail under load: re-run what failed, alone, before believing it
still = []
for t in bad:
    pkg, name = t.split("::")
    top = name.split("/")[0]
    ok = False
    for _ in range(2):
        r = subprocess.run(["go", "test", "-json", "-vet=off", "-count=1", "-run", "^" + top + "$", pkg], cwd=d, env=env, stdout=subprocess.PIPE, stderr=subprocess.DEVNULL, text=True)
        got = {}
        for line in r.stdout.splitlines():
            try:
                e = json.loads(line)
            except Exception:
                continue
            if e.get("Test") and e.get("Action") in ("pass", "fail", "skip"):
                got[e["Package"] + "::" + e["Test"]] = e["Action"]
        if got.get(t) == "pass":
            ok = True
            break
    if not ok:
        still.append(t)
bad = still
print("packages run: %d, stable_pass tests in them: %d, not passing: %d" % (len(pkgs), sum(1 for t in stable if t.split("::")[0] in pkgs), len(bad)))
for t in bad[:20]:
    print("  NOT PASSING:", t, res.get(t))
sys.exit(1 if bad else 0)
