#!/bin/bash
# usage: seedrun.sh <seed-id> <prop> [<prop>...]   applies seeded/<id>/patch.diff to /repo, runs the quick checks, undoes it.
set -u
id=$1; shift
cd /verif
if ! git -C /repo diff --quiet; then echo "repo has uncommitted changes"; exit 2; fi
git -C /repo apply /verif/seeded/$id/patch.diff || { echo "patch does not apply"; exit 2; }
trap 'git -C /repo checkout -- . ' EXIT
for p in "$@"; do
  out=$(VERIF_EVIDENCE_DIR=/verif/.build/seed-evidence VERIF_REPLAY_DIR=/verif/.build/seed-replays ${VERIF_TIER_CMD:-./vcheck run $p --tier ${TIER:-quick}} 2>&1)
  rc=$?
  if [ $rc -eq 1 ] && echo "$out" | grep -q "VIOLATION property=$p"; then echo "seed $id vs $p: CAUGHT"; else echo "seed $id vs $p: MISSED (exit $rc)"; fi
  echo "$out" | grep -A1 "VIOLATION\|INFRA" | cut -c1-400 | head -6
done
