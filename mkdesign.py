#!/usr/bin/env python3
"""Regenerates section 8 of DESIGN.md from design_addendum.tmpl.md, known_findings.json and seeded/*/meta.json."""
import json, os
V = os.path.dirname(os.path.abspath(__file__))
kf = json.load(open(os.path.join(V, "known_findings.json")))
rows = []
for s in sorted(os.listdir(os.path.join(V, "seeded"))):
    m = json.load(open(os.path.join(V, "seeded", s, "meta.json")))
    first = m.get("first_run", "")
    if isinstance(m.get("caught_by"), list) and not first:
        first = "; ".join(m["caught_by"])
    rows.append("| %s | %s | %s | %s |" % (s, m["breaks"].replace("|", "/")[:230], m["needs"].replace("|", "/")[:200], first.replace("|", "/")[:260]))
fixed = "\n".join("* " + x[len("fixed: "):] for x in kf["fixed"])
finds = "\n".join("* **%s** `%s` — %s" % (f["property"], f["sig"], f["what"][:420].replace("\n", " ")) for f in kf["findings"])
tmpl = open(os.path.join(V, "design_addendum.tmpl.md")).read()
add = tmpl.replace("{{FIXED}}", fixed).replace("{{FINDINGS}}", finds).replace("{{SEEDS}}", "\n".join(rows))
text = open(os.path.join(V, "DESIGN.md")).read()
marker = "\n## 8. As built"
if marker in text:
    text = text[:text.index(marker)]
open(os.path.join(V, "DESIGN.md"), "w").write(text.rstrip("\n") + "\n" + add)
print("DESIGN.md section 8 regenerated")
