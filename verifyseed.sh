#!/bin/bash
# usage: verifyseed.sh <seed-id> <agent-worktree> <demo-file-relative-to-worktree> <pkg-pattern-for-baseline>...
# Re-verifies a sub-agent's seeded change in a fresh scratch worktree of /repo HEAD:
# demo fails with the patch, passes without, baseline tests of the given packages still pass with it.
# On success copies patch, demo and notes to /verif/seeded/<id>/.
set -u
id=$1; wt=$2; demo=$3; shift 3
v=/tmp/v-$id
git -C /repo worktree remove --force $v >/dev/null 2>&1
git -C /repo worktree add --detach $v HEAD >/dev/null 2>&1 || { echo "cannot create worktree"; exit 2; }
trap 'git -C /repo worktree remove --force '$v' >/dev/null 2>&1' EXIT
cp $wt/$demo $v/$demo || exit 2
pkg=./$(dirname $demo)
run=$(grep -o 'func Test[A-Za-z0-9_]*' $v/$demo | sed 's/func //' | paste -sd'|')
cd $v
echo "== without patch: demo ($run in $pkg)"
go test -vet=off -count=1 -run "^($run)\$" $pkg > /tmp/v-$id.without.log 2>&1; rc0=$?
tail -3 /tmp/v-$id.without.log
git apply $wt/patch.diff || { echo "patch does not apply to HEAD"; exit 2; }
echo "== with patch: demo"
go test -vet=off -count=1 -run "^($run)\$" $pkg > /tmp/v-$id.with.log 2>&1; rc1=$?
grep -m5 -- "--- FAIL\|^FAIL\|^ok" /tmp/v-$id.with.log
rm -f $v/$demo
echo "== with patch: baseline tests $*"
/verif/tools_baseline.py $v "$@" | tail -4; rc2=${PIPESTATUS[0]}
echo "demo without=$rc0 (want 0) with=$rc1 (want !=0) baseline=$rc2 (want 0)"
if [ $rc0 -eq 0 ] && [ $rc1 -ne 0 ] && [ $rc2 -eq 0 ]; then
  mkdir -p /verif/seeded/$id
  cp $wt/patch.diff /verif/seeded/$id/patch.diff
  cp $wt/$demo /verif/seeded/$id/demo_test.go.txt
  cp $wt/SEED_NOTES.md /verif/seeded/$id/SEED_NOTES.md 2>/dev/null
  echo "$demo" > /verif/seeded/$id/demo_path.txt
  echo "VERIFIED $id"
else
  echo "NOT VERIFIED $id"
fi
