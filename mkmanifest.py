#!/usr/bin/env python3
"""Regenerates MANIFEST.json from checks.json (single source of truth for what is claimed)."""
import json
import os

V = os.path.dirname(os.path.abspath(__file__))
reg = json.load(open(os.path.join(V, "checks.json")))
props = [json.loads(l) for l in open(os.path.join(V, "properties.jsonl"))]

checks = []
na = []
for p in props:
    pid = p["id"]
    c = reg["checks"].get(pid)
    if not c or c.get("disabled"):
        reason = (c or {}).get("na_reason") or reg.get("not_applicable", {}).get(pid) or "check not built yet in this round (planned, see DESIGN.md §3 %s)" % pid
        na.append({"property_id": pid, "reason": reason})
        continue
    checks.append({
        "property_id": pid,
        "quick_cmd": "./vcheck run %s --tier quick" % pid,
        "thorough_cmd": "./vcheck run %s --tier thorough" % pid,
        "evidence_file": "/verif/evidence/%s.json" % pid,
        "replay_cmd_template": "./vcheck replay {path}",
        "engine": c["harness"],
        "level_claimed": {"category": c.get("level", "model_checking"), "text": c["level_text"], "design_ref": "DESIGN.md §3 " + pid},
        "level_note": c["level_note"],
        "technique": c["technique"],
    })

engines = []
for name, spec in reg["harnesses"].items():
    serves = sorted(pid for pid, c in reg["checks"].items() if c["harness"] == name and not c.get("disabled"))
    engines.append({"name": name, "path": "harness/%s" % spec.get("dir", name), "serves_properties": serves,
                    "kind_free_text": spec.get("kind", "bounded exhaustive enumeration against the real code")})

m = {
    "version": 1,
    "setup_cmd": "./vcheck setup",
    "hooks": {
        "guard": "none (no source hooks: instrumentation is applied at check time through `go build -overlay`)",
        "enable": "vcheck rewrites sync/atomic/semaphore/channel operations of the packages under test into scheduler shims and supplies them, the shim packages and the harness packages as virtual files under /repo/internal/zzverif via -overlay; /repo is never written",
        "baseline_off_cmd": "cd /repo && go test -json -vet=off -count=1 -timeout 25m ./...",
        "source_commits": [],
        "add_only": True,
    },
    "engines": engines,
    "checks": checks,
    "notes": "All checks rebuild from /repo's working tree. Exit 0 = held on everything explored (KNOWN-FINDING lines possible), 1 = VIOLATION, 2 = infrastructure error. See DESIGN.md.",
    "not_applicable": na,
}
json.dump(m, open(os.path.join(V, "MANIFEST.json"), "w"), indent=1)
print("MANIFEST.json: %d checks, %d not claimed" % (len(checks), len(na)))
