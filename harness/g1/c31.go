package main

import (
	"fmt"
	"os"
	"path/filepath"
	"sort"
	"strings"

	"google.golang.org/protobuf/proto"
	"google.golang.org/protobuf/types/descriptorpb"

	"github.com/bufbuild/protocompile"
	"github.com/bufbuild/protocompile/experimental/ast/printer"
	xparser "github.com/bufbuild/protocompile/experimental/parser"
	"github.com/bufbuild/protocompile/experimental/report"
	"github.com/bufbuild/protocompile/experimental/source"
	"github.com/bufbuild/protocompile/internal/zzverif/hx"
	"github.com/bufbuild/protocompile/internal/zzverif/model"
	"github.com/bufbuild/protocompile/linker"
)

func init() { props["C31"] = runC31 }

func formatText(text string, preset printer.Formatting) (string, bool) {
	rep := &report.Report{}
	file, _ := xparser.Parse("main.proto", source.NewFile("main.proto", text), rep)
	if file == nil {
		return "", false
	}
	for i := range rep.Diagnostics {
		if rep.Diagnostics[i].Level() <= report.Error {
			return "", false
		}
	}
	out, err := printer.PrintFile(printer.Options{Format: true, Formatting: preset}, file)
	if err != nil {
		return "", false
	}
	return out, true
}

// C31: formatting preserves meaning and is idempotent.
func runC31(h *hx.H) {
	maxDev := 2
	h.Rule = fmt.Sprintf("inputs: (a) main.proto of every compiler-accepted workspace within %d deviations of the three bases, printed plainly and in the comment styles of C23 (line comments around every line; detached paragraphs and block comments around every line; thorough: also tab-indented and CRLF), (b) every arrangement of <=2 trivia values (ten kinds of comment and blank-line runs) in neighbouring token slots of a 230-token self-contained file using every construct incl. message literals, (c) the repository's testdata files with LF, CRLF and untabbed variants; each formatted with the Default and the Legacy preset; oracle: the formatted text compiles (stable compiler, same dependencies) to descriptors equal to the original's without source info, compared strictly, then modulo the order of the dependency list, then modulo the order of file-level options, so that each class of difference has its own signature; format(format(x)) == format(x); non-trivial = commented file with >=1 deviation", maxDev)
	presets := []struct {
		name string
		f    printer.Formatting
	}{{"default", printer.Default()}, {"legacy", printer.Legacy()}}
	styles := 3
	if h.Thorough() {
		styles = 5
	}
	check := func(idx int64, desc string, base map[string]string, names []string, target string, nontrivial bool, variants []string, tagf func(printer.Formatting) string) {
		for style, text := range variants {
			// the reference is the compile of this very text
			src1 := map[string]string{}
			for k, v := range base {
				src1[k] = v
			}
			src1[target] = text
			ref := compile(src1, protocompile.SourceInfoNone, names...)
			if ref.err != nil {
				h.Count("rejected", 1)
				continue
			}
			var refMain *descriptorpb.FileDescriptorProto
			var refResolver linker.Resolver
			for _, f := range ref.files {
				if f.Path() == target {
					refMain = fdProto(f)
					refResolver = linker.ResolverFromFile(f)
				}
			}
			if refMain == nil {
				continue
			}
			for _, ps := range presets {
				h.State(1)
				tg := func() string {
					if tagf == nil {
						return ""
					}
					return tagf(ps.f)
				}
				fail := func(sig, format string, args ...any) {
					h.Violate(sig, hx.CaseID(idx), fmt.Sprintf("%s, variant %d, preset %s: ", desc, style, ps.name)+fmt.Sprintf(format, args...), map[string]any{"source": text})
				}
				f1, ok := formatText(text, ps.f)
				if !ok {
					h.Count("experimental_parser_rejects", 1)
					continue
				}
				h.Trace(1)
				if nontrivial && (style > 0 || len(variants) == 1) {
					h.NonTrivial++
				}
				f2, ok := formatText(f1, ps.f)
				h.Trans(2)
				if !ok {
					fail("format-output-does-not-parse"+tg(), "the formatted text is rejected by the experimental parser:\n%s", short(f1, 1500))
					continue
				}
				if f1 != f2 {
					fail("format-not-idempotent:"+tagOr(tg(), firstLineDiff(f1, f2)), "formatting the formatted text changes it again; %s", diffWindowStr(f1, f2))
					continue
				}
				src2 := map[string]string{}
				for k, v := range base {
					src2[k] = v
				}
				src2[target] = f1
				res := compile(src2, protocompile.SourceInfoNone, names...)
				h.Trans(1)
				if res.err != nil {
					fail("format-output-does-not-compile:"+tagOr(tg(), errClass(first1(res.errs, res.err))), "the formatted text does not compile: %s\n%s", first1(res.errs, res.err), short(f1, 1500))
					continue
				}
				var got *descriptorpb.FileDescriptorProto
				for _, f := range res.files {
					if f.Path() == target {
						got = fdProto(f)
					}
				}
				if proto.Equal(got, refMain) {
					continue
				}
				// custom option values are unknown fields here; decode them with the compiled
				// extension types so that their encoding order does not matter
				a, b := redecode(got, refResolver), redecode(refMain, refResolver)
				if proto.Equal(a, b) {
					continue
				}
				normDeps(a)
				normDeps(b)
				if proto.Equal(a, b) {
					fail("format-reorders-imports", "the formatted file lists its imports in a different order (dependency list %v, originally %v)", got.Dependency, refMain.Dependency)
					continue
				}
				fail("format-changes-descriptor:"+tagOr(tg(), diffField(a.ProtoReflect(), b.ProtoReflect(), "")), "the formatted text compiles to a different descriptor; formatted text:\n%s", short(f1, 1800))
			}
		}
	}
	forEachWS(h, maxDev, func(idx int64, ws *model.WS, ndev int) {
		h.Eval(1)
		base := ws.Sources()
		var variants []string
		for style := 0; style < styles; style++ {
			variants = append(variants, decorate(base["main.proto"], style))
		}
		check(idx, wsDesc(ws), base, ws.Names(), "main.proto", ndev > 0, variants, nil)
	})
	// trivia in the token slots of a self-contained, compilable skeleton
	dev, win := 2, 2
	if h.Thorough() {
		dev, win = 2, 6
	}
	forEachLayout(formatSkeleton, formatTrivia, dev, win, func(text string, slots map[int]string, build func(map[int]string) string) {
		idx, run := h.NextN()
		if !run {
			return
		}
		h.Eval(1)
		// The class of a failing layout is the class of its slots; when one of two slots fails
		// on its own (a layout that is enumerated by itself), the pair is put in that class.
		cp := map[int]string{}
		for k, v := range slots {
			cp[k] = v
		}
		tagf := func(preset printer.Formatting) string {
			if len(cp) > 1 {
				var ks []int
				for k := range cp {
					ks = append(ks, k)
				}
				sort.Ints(ks)
				for _, k := range ks {
					one := map[int]string{k: cp[k]}
					f1, ok := formatText(build(one), preset)
					if !ok {
						continue
					}
					if f2, ok := formatText(f1, preset); !ok || f2 != f1 {
						return layoutTag(formatSkeleton, one)
					}
				}
			}
			return layoutTag(formatSkeleton, cp)
		}
		check(idx, "layout skeleton", map[string]string{"main.proto": strings.ReplaceAll(formatSkeletonText, "\x00", "")}, []string{"main.proto"}, "main.proto", true, []string{text}, tagf)
	})
	// the repository's own testdata
	corpus := loadCorpus()
	var cnames []string
	for n := range corpus {
		cnames = append(cnames, n)
	}
	sort.Strings(cnames)
	for _, n := range cnames {
		idx, run := h.NextN()
		if !run {
			continue
		}
		h.Eval(1)
		text := corpus[n]
		check(idx, "testdata "+n, corpus, []string{n}, n, true, []string{text, strings.ReplaceAll(text, "\n", "\r\n"), strings.ReplaceAll(text, "\t", "  ")}, nil)
	}
}

func tagOr(tag, other string) string {
	if tag != "" {
		return strings.TrimPrefix(tag, ":")
	}
	return other
}

// layoutTag names the class of a layout: where its comments sit relative to declaration boundaries.
func layoutTag(skel []string, slots map[int]string) string {
	n := len(skel)
	inside, between, line := false, false, false
	for i, v := range slots {
		if !strings.Contains(v, "//") && !strings.Contains(v, "/*") {
			continue
		}
		boundary := i == 0 || i == n || skel[i-1] == ";" || skel[i-1] == "{" || skel[i] == "}" ||
			skel[i-1] == "}" && skel[i] != ";" && skel[i] != "," && skel[i] != "]" && skel[i] != ")"
		if boundary {
			between = true
		} else {
			inside = true
			if strings.Contains(v, "//") {
				line = true
			}
		}
	}
	// a slot inside a message literal (braces or angles that follow `=` or `:`, or nest in one)
	inLiteral := false
	depth := 0
	var stack []bool
	for i, t := range skel {
		if _, ok := slots[i]; ok && depth > 0 {
			inLiteral = true
		}
		switch t {
		case "{", "<":
			agg := depth > 0 || i > 0 && (skel[i-1] == "=" || skel[i-1] == ":")
			if t == "<" && !agg {
				continue // map<...>
			}
			stack = append(stack, agg)
			if agg {
				depth++
			}
		case "}", ">":
			if t == ">" && (len(stack) == 0 || !stack[len(stack)-1]) {
				continue
			}
			if len(stack) > 0 {
				if stack[len(stack)-1] {
					depth--
				}
				stack = stack[:len(stack)-1]
			}
		}
	}
	if inLiteral {
		if line {
			return ":line-comment-inside-a-message-literal"
		}
		if inside || between {
			return ":block-comment-inside-a-message-literal"
		}
		return ":blank-lines-inside-a-message-literal"
	}
	switch {
	case inside && line:
		return ":line-comment-inside-a-declaration"
	case inside:
		return ":block-comment-inside-a-declaration"
	case between:
		return ":comment-between-declarations"
	}
	return ":blank-lines-only"
}

var formatSkeleton = strings.Fields(`syntax = "proto2" ; package p ; import "google/protobuf/descriptor.proto" ; option java_package = "x" ;
message M { optional int32 a = 1 [ deprecated = true , json_name = "A" ] ; repeated string b = 2 ; oneof o { int32 c = 3 ; } map < string , int32 > m = 4 ;
reserved 10 to 12 , 15 ; reserved "zz" ; extensions 100 to 199 ; enum E { option allow_alias = true ; A = 0 ; B = 0 [ deprecated = true ] ; } message N { } }
extend M { optional int32 x = 100 ; } service S { rpc R ( M ) returns ( M ) { option deprecated = true ; } rpc Q ( stream M ) returns ( stream M ) ; }
message Lit { optional int32 a = 1 ; optional string b = 2 ; optional Lit c = 3 ; repeated int32 e = 5 ; }
extend google . protobuf . FileOptions { optional Lit fo = 50001 ; } option ( fo ) = { a : 1 b : "s" c { a : 2 } e : [ 1 , 2 ] } ; option ( fo ) . c . b = "t" ;
extend google . protobuf . FileOptions { optional Lit fo2 = 50002 ; } option ( fo2 ) = { a : 1 c < a : 2 b : "u" c < a : 4 > > e : [ 3 ] } ;
extend google . protobuf . FileOptions { optional Lit fo3 = 50003 ; optional Lit fo4 = 50004 ; } option ( fo3 ) = { c < > } ; option ( fo4 ) = { c { } } ;`)

var formatSkeletonText = strings.Join(formatSkeleton, " ") + "\n"

var formatTrivia = []string{"", "\n", "\n\n", "\t", " // c\n", " /* c */ ", " /* c\n c */ ", "\n// c\n", "\n\n// c\n\n", "\n/* c */\n"}

// forEachLayout: see the text harness; every text obtained by putting a non-default trivia value
// into at most maxDev slots of the skeleton (second slot within `window` of the first).
func forEachLayout(skel []string, trivia []string, maxDev, window int, f func(s string, slots map[int]string, build func(map[int]string) string)) {
	n := len(skel)
	build := func(slots map[int]string) string {
		var b strings.Builder
		for i, t := range skel {
			if v, ok := slots[i]; ok {
				b.WriteString(v)
			} else if i > 0 {
				b.WriteString(" ")
			}
			b.WriteString(t)
		}
		if v, ok := slots[n]; ok {
			b.WriteString(v)
		} else {
			b.WriteString("\n")
		}
		return b.String()
	}
	slots := map[int]string{}
	var rec func(from, left int)
	rec = func(from, left int) {
		f(build(slots), slots, build)
		if left == 0 {
			return
		}
		for i := from; i <= n; i++ {
			if window > 0 && len(slots) > 0 && i-from >= window && i != n {
				continue
			}
			for _, v := range trivia {
				slots[i] = v
				rec(i+1, left-1)
			}
			delete(slots, i)
		}
	}
	rec(0, maxDev)
}

// loadCorpus reads the repository's testdata protos, keyed by the path they import each other by.
func loadCorpus() map[string]string {
	root := os.Getenv("VERIF_REPO")
	if root == "" {
		root = "/repo"
	}
	base := filepath.Join(root, "internal/testdata")
	out := map[string]string{}
	filepath.Walk(base, func(p string, info os.FileInfo, err error) error {
		if err == nil && !info.IsDir() && strings.HasSuffix(p, ".proto") {
			b, err := os.ReadFile(p)
			if err == nil {
				rel, _ := filepath.Rel(base, p)
				out[rel] = string(b)
				if strings.HasPrefix(rel, "options/") || strings.HasPrefix(rel, "editions/") {
					out[strings.SplitN(rel, "/", 2)[1]] = string(b)
				}
			}
		}
		return nil
	})
	return out
}

// normDeps sorts the dependency list (and drops the index-based public/weak lists after
// translating them to names).
func normDeps(fd *descriptorpb.FileDescriptorProto) {
	pub, weak := map[string]bool{}, map[string]bool{}
	for _, i := range fd.PublicDependency {
		pub[fd.Dependency[i]] = true
	}
	for _, i := range fd.WeakDependency {
		weak[fd.Dependency[i]] = true
	}
	sort.Strings(fd.Dependency)
	fd.PublicDependency, fd.WeakDependency = nil, nil
	for i, d := range fd.Dependency {
		if pub[d] {
			fd.PublicDependency = append(fd.PublicDependency, int32(i))
		}
		if weak[d] {
			fd.WeakDependency = append(fd.WeakDependency, int32(i))
		}
	}
}

func firstLineDiff(a, b string) string {
	la, lb := strings.Split(a, "\n"), strings.Split(b, "\n")
	for i := 0; i < len(la) && i < len(lb); i++ {
		if la[i] != lb[i] {
			return lineClass(la[i]) + "->" + lineClass(lb[i])
		}
	}
	return "length"
}

// lineClass abstracts a source line to its shape: comment kinds and the first word.
func lineClass(l string) string {
	t := strings.TrimSpace(l)
	switch {
	case t == "":
		return "blank"
	case strings.HasPrefix(t, "//"):
		return "line-comment"
	case strings.HasPrefix(t, "/*"), strings.HasPrefix(t, "*"):
		return "block-comment"
	}
	w := t
	if i := strings.IndexAny(t, " ={(["); i > 0 {
		w = t[:i]
	}
	c := ""
	if strings.Contains(t, "//") {
		c = "+line-comment"
	} else if strings.Contains(t, "/*") {
		c = "+block-comment"
	}
	switch w {
	case "message", "enum", "service", "rpc", "option", "import", "package", "syntax", "edition", "extend", "oneof", "reserved", "extensions", "optional", "required", "repeated", "map", "}", "{", "];", "]":
		return w + c
	}
	return "decl" + c
}

func diffWindowStr(a, b string) string {
	i := 0
	for i < len(a) && i < len(b) && a[i] == b[i] {
		i++
	}
	lo := max(0, i-60)
	return fmt.Sprintf("first difference at byte %d: first pass %q, second pass %q", i, a[lo:min(len(a), i+60)], b[lo:min(len(b), i+60)])
}

func redecode(m *descriptorpb.FileDescriptorProto, res linker.Resolver) *descriptorpb.FileDescriptorProto {
	data, err := proto.MarshalOptions{Deterministic: true}.Marshal(m)
	if err != nil {
		return proto.Clone(m).(*descriptorpb.FileDescriptorProto)
	}
	out := &descriptorpb.FileDescriptorProto{}
	if err := (proto.UnmarshalOptions{Resolver: res}).Unmarshal(data, out); err != nil {
		return proto.Clone(m).(*descriptorpb.FileDescriptorProto)
	}
	return out
}
