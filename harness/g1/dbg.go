package main

import (
	"fmt"
	"os"
	"sort"
	"strings"

	"github.com/bufbuild/protocompile/experimental/ast/printer"

	"github.com/bufbuild/protocompile"
	"github.com/bufbuild/protocompile/internal/zzverif/hx"
	"github.com/bufbuild/protocompile/internal/zzverif/model"
)

// WSDUMP prints the workspace for the deviations named in WSDUMP_DEVS (comma separated) on the
// base WSDUMP_SYNTAX, with the compiler's verdict and the model's.
func init() {
	props["WSDUMP"] = func(h *hx.H) {
		syn := os.Getenv("WSDUMP_SYNTAX")
		if syn == "" {
			syn = "proto2"
		}
		cat := model.Catalogue(syn)
		var idx []int
		for _, want := range strings.Split(os.Getenv("WSDUMP_DEVS"), ",") {
			for i, d := range cat {
				if d.Name == want {
					idx = append(idx, i)
				}
			}
		}
		ws := model.Apply(syn, cat, idx...)
		fmt.Println(ws.String())
		res := compile(ws.Sources(), protocompile.SourceInfoStandard, ws.Names()...)
		fmt.Println("compiler:", res.err, res.errs)
		m := model.Check(ws)
		fmt.Println("model:", m.Verdict, m.Reason)
		if res.err == nil {
			for _, f := range res.files {
				if f.Path() == "main.proto" {
					for _, l := range fdProto(f).GetSourceCodeInfo().GetLocation() {
						if len(l.Path) >= 4 && l.Path[0] == 4 && l.Path[2] == 3 {
							fmt.Println("  loc", l.Path, l.Span)
						}
					}
				}
			}
		}
		h.Eval(1)
	}
}

// FMTDBG lists, for every single-slot layout of the format skeleton, whether formatting is
// idempotent, grouped by (previous token, next token, trivia).
func init() {
	props["FMTDBG"] = func(h *hx.H) {
		h.Eval(1)
		type key struct{ prev, next, triv string }
		seen := map[string]int{}
		example := map[string]string{}
		forEachLayout(formatSkeleton, formatTrivia, 1, 0, func(text string, slots map[int]string, _ func(map[int]string) string) {
			if len(slots) != 1 {
				return
			}
			for i, v := range slots {
				prev, next := "^", "$"
				if i > 0 {
					prev = formatSkeleton[i-1]
				}
				if i < len(formatSkeleton) {
					next = formatSkeleton[i]
				}
				for _, ps := range []struct {
					n string
					f printer.Formatting
				}{{"default", printer.Default()}, {"legacy", printer.Legacy()}} {
					f1, ok := formatText(text, ps.f)
					if !ok {
						continue
					}
					f2, ok := formatText(f1, ps.f)
					if ok && f1 == f2 {
						continue
					}
					k := fmt.Sprintf("%-8s %-10q %-12q %q", ps.n, prev, next, v)
					seen[k]++
					if _, has := example[k]; !has {
						example[k] = diffWindowStr(f1, f2)
					}
				}
			}
		})
		var ks []string
		for k := range seen {
			ks = append(ks, k)
		}
		sort.Strings(ks)
		for _, k := range ks {
			fmt.Printf("%s x%d\n      %s\n", k, seen[k], example[k])
		}
		fmt.Println("classes:", len(ks))
	}
}
