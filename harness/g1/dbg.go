package main

import (
	"fmt"
	"os"
	"strings"

	"github.com/bufbuild/protocompile"
	"github.com/bufbuild/protocompile/internal/zzverif/hx"
	"github.com/bufbuild/protocompile/internal/zzverif/model"
)

// WSDUMP prints the workspace for the deviations named in WSDUMP_DEVS (comma separated) on the
// base WSDUMP_SYNTAX, with the compiler's verdict and the model's.
func init() {
	props["WSDUMP"] = func(h *hx.H) {
		syn := os.Getenv("WSDUMP_SYNTAX")
		if syn == "" {
			syn = "proto2"
		}
		cat := model.Catalogue(syn)
		var idx []int
		for _, want := range strings.Split(os.Getenv("WSDUMP_DEVS"), ",") {
			for i, d := range cat {
				if d.Name == want {
					idx = append(idx, i)
				}
			}
		}
		ws := model.Apply(syn, cat, idx...)
		fmt.Println(ws.String())
		res := compile(ws.Sources(), protocompile.SourceInfoStandard, ws.Names()...)
		fmt.Println("compiler:", res.err, res.errs)
		m := model.Check(ws)
		fmt.Println("model:", m.Verdict, m.Reason)
		if res.err == nil {
			for _, f := range res.files {
				if f.Path() == "main.proto" {
					for _, l := range fdProto(f).GetSourceCodeInfo().GetLocation() {
						if len(l.Path) >= 4 && l.Path[0] == 4 && l.Path[2] == 3 {
							fmt.Println("  loc", l.Path, l.Span)
						}
					}
				}
			}
		}
		h.Eval(1)
	}
}
