package main

import (
	"fmt"
	"strings"

	"google.golang.org/protobuf/reflect/protoreflect"
	"google.golang.org/protobuf/types/descriptorpb"

	"github.com/bufbuild/protocompile"
	"github.com/bufbuild/protocompile/internal/zzverif/hx"
	"github.com/bufbuild/protocompile/internal/zzverif/model"
)

func init() { props["C23"] = runC23 }

// decorate adds comments to a printed file. style 0: none; 1: a leading line comment and a
// trailing line comment on every line; 2: a detached paragraph, a leading block comment and a
// trailing block comment on every line.
func decorate(text string, style int) string {
	switch style {
	case 0:
		return text
	case 3:
		return strings.ReplaceAll(decorate(text, 1), "  ", "\t")
	case 4:
		return strings.ReplaceAll(decorate(text, 2), "\n", "\r\n")
	}
	lines := strings.Split(strings.TrimSuffix(text, "\n"), "\n")
	var b strings.Builder
	for i, l := range lines {
		ind := l[:len(l)-len(strings.TrimLeft(l, " "))]
		switch style {
		case 1:
			fmt.Fprintf(&b, "%s// lead %d\n%s // trail %d\n", ind, i, l, i)
		case 2:
			fmt.Fprintf(&b, "%s// detached %d\n\n%s/* lead\n%s * block %d */\n%s /* trail %d */\n", ind, i, ind, ind, i, l, i)
		}
	}
	return b.String()
}

// C23: source code info is well formed in every mode.
func runC23(h *hx.H) {
	maxDev, styles := 2, 3
	if h.Thorough() {
		styles = 5
	}
	h.Rule = fmt.Sprintf("inputs: every compiler-accepted workspace within %d deviation(s) of the three bases, printed plainly, with line comments around every line, and with detached paragraphs and block comments around every line (thorough: also tab-indented and CRLF variants); compiled with source info standard / extra comments / extra option locations / both; oracle: every location path walks, by reflection, to an existing field (and index) of the produced FileDescriptorProto; spans have 3 or 4 numbers, start <= end, inside the text (tab stops of 8); every named element (message, field, oneof, enum, value, service, method, extension) has a name location whose span covers exactly its name; every comment line, markers removed, occurs in the source; extra-comments mode has the same (path, span) sequence as standard and keeps every comment standard has; extra-option-locations has standard's sequence as a subsequence and every additional path runs through an options field; non-trivial = commented file with >=1 deviation", maxDev)
	modes := []protocompile.SourceInfoMode{protocompile.SourceInfoStandard, protocompile.SourceInfoExtraComments, protocompile.SourceInfoExtraOptionLocations, protocompile.SourceInfoExtraComments | protocompile.SourceInfoExtraOptionLocations}
	forEachWS(h, maxDev, func(idx int64, ws *model.WS, ndev int) {
		h.Eval(1)
		desc := wsDesc(ws)
		for style := 0; style < styles; style++ {
			src := ws.Sources()
			for n, t := range src {
				src[n] = decorate(t, style)
			}
			fail := func(sig, format string, args ...any) {
				h.Violate(sig, hx.CaseID(idx), fmt.Sprintf("%s, comment style %d: ", desc, style)+fmt.Sprintf(format, args...), map[string]any{"main.proto": src["main.proto"]})
			}
			var infos [4][]*descriptorpb.SourceCodeInfo_Location
			for mi, mode := range modes {
				res := compile(src, mode, ws.Names()...)
				if res.err != nil {
					h.Count("rejected", 1)
					return
				}
				h.State(1)
				h.Trace(1)
				if style > 0 && ndev > 0 && mi == 0 {
					h.NonTrivial++
				}
				for _, f := range res.files {
					fd := fdProto(f)
					text := src[f.Path()]
					locs := fd.GetSourceCodeInfo().GetLocation()
					if len(locs) == 0 {
						fail("source-info-missing", "mode %d: %s has no source code info", mi, f.Path())
						return
					}
					if f.Path() == "main.proto" {
						infos[mi] = locs
					}
					if msg := checkNames(fd, locs, text); msg != "" {
						fail("source-info-name-location", "mode %d: %s: %s", mi, f.Path(), msg)
						return
					}
					lines := strings.Split(text, "\n")
					for _, loc := range locs {
						h.Trans(1)
						if msg := walkPath(fd.ProtoReflect(), loc.Path); msg != "" {
							fail("source-info-path", "mode %d: %s: path %v: %s", mi, f.Path(), loc.Path, msg)
							return
						}
						if msg := checkSpan(loc.Span, lines); msg != "" {
							fail("source-info-span", "mode %d: %s: path %v span %v: %s", mi, f.Path(), loc.Path, loc.Span, msg)
							return
						}
						cs := append([]string{loc.GetLeadingComments(), loc.GetTrailingComments()}, loc.LeadingDetachedComments...)
						for _, c := range cs {
							for _, cl := range strings.Split(c, "\n") {
								cl = strings.TrimSpace(cl)
								if cl != "" && !strings.Contains(text, cl) {
									fail("source-info-comment-text", "mode %d: %s: path %v: comment line %q does not occur in the source", mi, f.Path(), loc.Path, cl)
									return
								}
							}
						}
					}
				}
			}
			key := func(l *descriptorpb.SourceCodeInfo_Location) string { return fmt.Sprint(l.Path, l.Span) }
			std, xc, xo, both := infos[0], infos[1], infos[2], infos[3]
			// extra comments: same sequence, comments kept
			for _, pair := range [][2][]*descriptorpb.SourceCodeInfo_Location{{std, xc}, {xo, both}} {
				a, b := pair[0], pair[1]
				if len(a) != len(b) {
					fail("extra-comments-changes-locations", "extra-comments mode has %d locations, the mode without has %d", len(b), len(a))
					return
				}
				for i := range a {
					if key(a[i]) != key(b[i]) {
						fail("extra-comments-changes-locations", "location %d: %s vs %s", i, key(a[i]), key(b[i]))
						return
					}
					if a[i].GetLeadingComments() != "" && b[i].GetLeadingComments() != a[i].GetLeadingComments() ||
						a[i].GetTrailingComments() != "" && b[i].GetTrailingComments() != a[i].GetTrailingComments() ||
						len(b[i].LeadingDetachedComments) < len(a[i].LeadingDetachedComments) {
						fail("extra-comments-loses-comment", "location %s: standard has comments %q/%q/%d detached, extra-comments mode has %q/%q/%d", key(a[i]), a[i].GetLeadingComments(), a[i].GetTrailingComments(), len(a[i].LeadingDetachedComments), b[i].GetLeadingComments(), b[i].GetTrailingComments(), len(b[i].LeadingDetachedComments))
						return
					}
				}
			}
			// extra option locations: standard is a subsequence, extras run through options
			for _, pair := range [][2][]*descriptorpb.SourceCodeInfo_Location{{std, xo}, {xc, both}} {
				a, b := pair[0], pair[1]
				j := 0
				for _, l := range b {
					if j < len(a) && key(a[j]) == key(l) {
						j++
						continue
					}
					if !throughOptions((&descriptorpb.FileDescriptorProto{}).ProtoReflect().Descriptor(), l.Path) {
						fail("extra-option-location-outside-options", "additional location %s does not run through an options field", key(l))
						return
					}
				}
				if j != len(a) {
					fail("extra-option-locations-drops-location", "standard location %s is missing or reordered in extra-option-locations mode", key(a[j]))
					return
				}
			}
			if h.WantSample() && style == 2 && ndev == 1 {
				h.Sample(map[string]any{"case": hx.CaseID(idx), "workspace": desc, "locations_standard": len(std), "locations_extra_options": len(xo)})
			}
		}
	})
}

// walkPath follows a source path through the message by reflection.
func walkPath(m protoreflect.Message, path []int32) string {
	for i := 0; i < len(path); i++ {
		fd := m.Descriptor().Fields().ByNumber(protoreflect.FieldNumber(path[i]))
		if fd == nil {
			if m.Descriptor().ExtensionRanges().Has(protoreflect.FieldNumber(path[i])) {
				return "" // custom option: the extension is not known to this walk
			}
			return fmt.Sprintf("message %s has no field %d", m.Descriptor().FullName(), path[i])
		}
		if fd.IsMap() {
			return ""
		}
		if fd.IsList() {
			if i+1 == len(path) {
				return ""
			}
			i++
			l := m.Get(fd).List()
			if int(path[i]) < 0 || int(path[i]) >= l.Len() {
				return fmt.Sprintf("index %d out of range for %s (length %d)", path[i], fd.FullName(), l.Len())
			}
			if fd.Message() == nil {
				if i+1 != len(path) {
					return fmt.Sprintf("path continues below scalar element of %s", fd.FullName())
				}
				return ""
			}
			m = l.Get(int(path[i])).Message()
			continue
		}
		if fd.Message() == nil {
			if i+1 != len(path) {
				return fmt.Sprintf("path continues below scalar field %s", fd.FullName())
			}
			return ""
		}
		if !m.Has(fd) {
			if i+1 == len(path) {
				return ""
			}
			return fmt.Sprintf("path continues into unset message field %s", fd.FullName())
		}
		m = m.Get(fd).Message()
	}
	return ""
}

// throughOptions reports whether a path passes through a field named options (by descriptor).
func throughOptions(md protoreflect.MessageDescriptor, path []int32) bool {
	for i := 0; i < len(path); i++ {
		fd := md.Fields().ByNumber(protoreflect.FieldNumber(path[i]))
		if fd == nil {
			return false
		}
		if fd.Name() == "options" {
			return true
		}
		if fd.Message() == nil {
			return false
		}
		if fd.IsList() {
			i++
		}
		md = fd.Message()
	}
	return false
}

func visualWidth(line string) int {
	col := 0
	for _, r := range line {
		if r == '\t' {
			col += 8 - col%8
		} else {
			col++
		}
	}
	return col
}

func checkSpan(span []int32, lines []string) string {
	if len(span) != 3 && len(span) != 4 {
		return "span must have 3 or 4 elements"
	}
	sl, sc := int(span[0]), int(span[1])
	el, ec := sl, int(span[2])
	if len(span) == 4 {
		el, ec = int(span[2]), int(span[3])
	}
	if sl < 0 || sc < 0 || el < sl || el == sl && ec < sc {
		return "start after end or negative"
	}
	if el >= len(lines) {
		return fmt.Sprintf("end line %d beyond the file's %d lines", el, len(lines))
	}
	if sc > visualWidth(lines[sl]) || ec > visualWidth(lines[el]) {
		return fmt.Sprintf("column beyond the line's width (%d / %d)", visualWidth(lines[sl]), visualWidth(lines[el]))
	}
	return ""
}

// checkNames requires that every named element of the file (messages, fields, oneofs, enums,
// values, services, methods, extensions; not synthetic map entries) has a location for its name
// and that the text under that location's span is the element's name.
func checkNames(fd *descriptorpb.FileDescriptorProto, locs []*descriptorpb.SourceCodeInfo_Location, text string) string {
	byPath := map[string]*descriptorpb.SourceCodeInfo_Location{}
	for _, l := range locs {
		k := fmt.Sprint(l.Path)
		if _, dup := byPath[k]; !dup {
			byPath[k] = l
		}
	}
	lines := strings.Split(text, "\n")
	spanText := func(l *descriptorpb.SourceCodeInfo_Location) (string, bool) {
		s := l.Span
		if len(s) != 3 || int(s[0]) >= len(lines) {
			return "", false
		}
		// columns count tab stops; only spans on tab-free prefixes are compared
		line := lines[s[0]]
		if strings.Contains(line, "\t") || int(s[2]) > len(line) {
			return "", false
		}
		return line[s[1]:s[2]], true
	}
	var msg string
	check := func(path []int32, name string, synthetic bool) {
		if msg != "" || synthetic {
			return
		}
		np := append(append([]int32(nil), path...), 1)
		l := byPath[fmt.Sprint(np)]
		if l == nil {
			msg = fmt.Sprintf("no location for the name of %s (path %v)", name, np)
			return
		}
		if got, ok := spanText(l); ok && got != name && !strings.EqualFold(got, name) {
			msg = fmt.Sprintf("the name location of %s (path %v, span %v) covers %q", name, np, l.Span, got)
		}
	}
	var inMsg func(path []int32, m *descriptorpb.DescriptorProto)
	fields := func(path []int32, num int32, fs []*descriptorpb.FieldDescriptorProto) {
		for i, f := range fs {
			check(append(append([]int32(nil), path...), num, int32(i)), f.GetName(), false)
		}
	}
	enums := func(path []int32, num int32, es []*descriptorpb.EnumDescriptorProto) {
		for i, e := range es {
			ep := append(append([]int32(nil), path...), num, int32(i))
			check(ep, e.GetName(), false)
			for j, v := range e.Value {
				check(append(append([]int32(nil), ep...), 2, int32(j)), v.GetName(), false)
			}
		}
	}
	inMsg = func(path []int32, m *descriptorpb.DescriptorProto) {
		if m.GetOptions().GetMapEntry() {
			return
		}
		check(path, m.GetName(), false)
		fields(path, 2, m.Field)
		fields(path, 6, m.Extension)
		for i, o := range m.OneofDecl {
			// the synthetic oneof of a proto3 optional field has no location
			synthetic := false
			for _, f := range m.Field {
				if f.OneofIndex != nil && int(f.GetOneofIndex()) == i && f.GetProto3Optional() {
					synthetic = true
				}
			}
			check(append(append([]int32(nil), path...), 8, int32(i)), o.GetName(), synthetic)
		}
		enums(path, 4, m.EnumType)
		for i, n := range m.NestedType {
			inMsg(append(append([]int32(nil), path...), 3, int32(i)), n)
		}
	}
	for i, m := range fd.MessageType {
		inMsg([]int32{4, int32(i)}, m)
	}
	enums(nil, 5, fd.EnumType)
	fields(nil, 7, fd.Extension)
	// the modifier of an import: one location per entry of public_dependency / weak_dependency
	for num, word := range map[int32]string{10: "public", 11: "weak"} {
		n := len(fd.PublicDependency)
		if num == 11 {
			n = len(fd.WeakDependency)
		}
		for i := 0; i < n && msg == ""; i++ {
			l := byPath[fmt.Sprint([]int32{num, int32(i)})]
			if l == nil {
				msg = fmt.Sprintf("no location for the `%s` modifier of import %d (path [%d %d])", word, i, num, i)
			} else if got, ok := spanText(l); ok && got != word {
				msg = fmt.Sprintf("the location of the `%s` modifier (path [%d %d], span %v) covers %q", word, num, i, l.Span, got)
			}
		}
	}
	for i, sv := range fd.Service {
		sp := []int32{6, int32(i)}
		check(sp, sv.GetName(), false)
		for j, mt := range sv.Method {
			check(append(append([]int32(nil), sp...), 2, int32(j)), mt.GetName(), false)
		}
	}
	return msg
}
