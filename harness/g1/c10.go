package main

import (
	"context"
	"fmt"

	"google.golang.org/protobuf/proto"
	"google.golang.org/protobuf/types/descriptorpb"

	"github.com/bufbuild/protocompile"
	"github.com/bufbuild/protocompile/internal/zzverif/hx"
	"github.com/bufbuild/protocompile/internal/zzverif/model"
	"github.com/bufbuild/protocompile/linker"
	"github.com/bufbuild/protocompile/reporter"
)

func init() { props["C10"] = runC10 }

func detBytes(m proto.Message) []byte {
	b, _ := proto.MarshalOptions{Deterministic: true}.Marshal(m)
	return b
}

// compileWith runs the compiler over a resolver that serves the given search results.
func compileWith(results map[string]protocompile.SearchResult, mode protocompile.SourceInfoMode, names ...string) (linker.Files, error, []string) {
	var errs []string
	rep := reporter.NewReporter(func(e reporter.ErrorWithPos) error { errs = append(errs, e.Error()); return nil }, nil)
	c := protocompile.Compiler{
		Resolver: protocompile.WithStandardImports(protocompile.ResolverFunc(func(p string) (protocompile.SearchResult, error) {
			if r, ok := results[p]; ok {
				return r, nil
			}
			return protocompile.SearchResult{}, fmt.Errorf("file not found: %s", p)
		})),
		MaxParallelism: 1,
		Reporter:       rep,
		SourceInfoMode: mode,
	}
	files, err := c.Compile(context.Background(), names...)
	return files, err, errs
}

// C10: feeding the compiler's output descriptors back in (as protos, as linked descriptors)
// succeeds and reproduces them byte for byte.
func runC10(h *hx.H) {
	maxDev := 2
	if h.Thorough() {
		maxDev = 3
	}
	h.Rule = fmt.Sprintf("inputs: every workspace within %d deviations of the three bases (catalogue of about 400 deviations incl. custom options and editions features) that the compiler accepts, with source info off and on; the produced FileDescriptorProtos are fed back (a) as SearchResult.Proto clones, (b) as SearchResult.Desc, (c) protos for the dependencies and source for the main file; oracle: the second compile succeeds and the deterministic encodings of all files are identical to the first compile's; non-trivial = accepted workspace with >=1 deviation", maxDev)
	forEachWS(h, maxDev, func(idx int64, ws *model.WS, ndev int) {
		h.Eval(1)
		h.State(1)
		desc := wsDesc(ws)
		fail := func(sig, format string, args ...any) {
			h.Violate(sig, hx.CaseID(idx), desc+": "+fmt.Sprintf(format, args...), map[string]any{"workspace": ws.String()})
		}
		src := ws.Sources()
		names := ws.Names()
		for mi, mode := range []protocompile.SourceInfoMode{protocompile.SourceInfoNone, protocompile.SourceInfoStandard} {
			res := compile(src, mode, names...)
			h.Trans(1)
			if res.err != nil {
				h.Count("rejected", 1)
				return
			}
			if ndev > 0 && mi == 0 {
				h.NonTrivial++
			}
			first := map[string][]byte{}
			protos := map[string]*descriptorpb.FileDescriptorProto{}
			for _, f := range res.files {
				protos[f.Path()] = fdProto(f)
				first[f.Path()] = detBytes(protos[f.Path()])
			}
			variants := []struct {
				name  string
				build func() map[string]protocompile.SearchResult
			}{
				{"proto", func() map[string]protocompile.SearchResult {
					m := map[string]protocompile.SearchResult{}
					for n, p := range protos {
						m[n] = protocompile.SearchResult{Proto: proto.Clone(p).(*descriptorpb.FileDescriptorProto)}
					}
					return m
				}},
				{"desc", func() map[string]protocompile.SearchResult {
					m := map[string]protocompile.SearchResult{}
					for _, f := range res.files {
						m[f.Path()] = protocompile.SearchResult{Desc: f}
					}
					return m
				}},
				{"deps-as-proto", func() map[string]protocompile.SearchResult {
					m := map[string]protocompile.SearchResult{}
					for n, p := range protos {
						if n == "main.proto" {
							continue
						}
						m[n] = protocompile.SearchResult{Proto: proto.Clone(p).(*descriptorpb.FileDescriptorProto)}
					}
					return m
				}},
			}
			for _, v := range variants {
				results := v.build()
				if v.name == "deps-as-proto" {
					results["main.proto"] = protocompile.SearchResult{Source: stringsReader(src["main.proto"])}
				}
				files, err, errs := compileWith(results, mode, names...)
				h.Trans(1)
				h.Trace(1)
				if err != nil {
					fail("relink-fails:"+v.name+":"+errClass(first1(errs, err)), "source-info mode %d: compiling the output fed back as %s fails: %v %v", mi, v.name, err, errs)
					return
				}
				for _, f := range files {
					if got := detBytes(fdProto(f)); string(got) != string(first[f.Path()]) {
						var x descriptorpb.FileDescriptorProto
						_ = proto.Unmarshal(first[f.Path()], &x)
						fail("relink-differs:"+v.name+":"+diffField(fdProto(f).ProtoReflect(), x.ProtoReflect(), ""), "source-info mode %d: %s re-linked from %s differs from the first result", mi, f.Path(), v.name)
						return
					}
				}
			}
		}
		if h.WantSample() && ndev == 2 {
			h.Sample(map[string]any{"case": hx.CaseID(idx), "workspace": desc})
		}
	})
}

func first1(errs []string, err error) string {
	if len(errs) > 0 {
		return errs[0]
	}
	return err.Error()
}
