// Harness for the properties decided over the G1 schema grammar (DESIGN.md §2.3):
// workspaces obtained from a valid three-file base by <=k deviations, printed and
// compiled by the real compiler, with oracles that are reference models (C01, C02)
// or differential (C04, C09, C10, C21, C23, C24).
package main

import (
	"context"
	"fmt"
	"os"
	"strings"

	"google.golang.org/protobuf/reflect/protoreflect"
	"google.golang.org/protobuf/types/descriptorpb"

	"github.com/bufbuild/protocompile"
	"github.com/bufbuild/protocompile/internal/zzverif/hx"
	"github.com/bufbuild/protocompile/internal/zzverif/model"
	"github.com/bufbuild/protocompile/linker"
	"github.com/bufbuild/protocompile/protoutil"
	"github.com/bufbuild/protocompile/reporter"
)

var props = map[string]func(h *hx.H){}

func main() {
	prop := ""
	for i, a := range os.Args {
		if a == "-prop" && i+1 < len(os.Args) {
			prop = os.Args[i+1]
			os.Args = append(os.Args[:i], os.Args[i+2:]...)
			break
		}
	}
	hx.Main(prop, func(h *hx.H) {
		f, ok := props[prop]
		if !ok {
			h.Infra = append(h.Infra, "unknown property "+prop)
			return
		}
		f(h)
	})
}

type compiled struct {
	files linker.Files
	err   error
	errs  []string
	warns []string
}

func compile(src map[string]string, mode protocompile.SourceInfoMode, names ...string) *compiled {
	out := &compiled{}
	rep := reporter.NewReporter(
		func(e reporter.ErrorWithPos) error { out.errs = append(out.errs, e.Error()); return nil },
		func(e reporter.ErrorWithPos) { out.warns = append(out.warns, e.Error()) },
	)
	c := protocompile.Compiler{
		Resolver: protocompile.WithStandardImports(&protocompile.SourceResolver{
			Accessor: protocompile.SourceAccessorFromMap(src),
		}),
		MaxParallelism: 1,
		Reporter:       rep,
		SourceInfoMode: mode,
	}
	out.files, out.err = c.Compile(context.Background(), names...)
	return out
}

func fdProto(fd protoreflect.FileDescriptor) *descriptorpb.FileDescriptorProto {
	return protoutil.ProtoFromFileDescriptor(fd)
}

var syntaxes = []string{"proto2", "proto3", "2023"}

// forEachWS enumerates every workspace with at most maxDev deviations (distinct slots) from each
// of the three bases, simplest first.
// forEachWS enumerates the workspaces by increasing number of deviations (all bases with 0, then
// 1, ... maxDev deviations), so that a run that reaches its internal deadline has still covered
// every workspace below some bound, which it reports.
func forEachWS(h *hx.H, maxDev int, f func(idx int64, ws *model.WS, ndev int)) {
	for depth := 0; depth <= maxDev; depth++ {
		for _, syn := range syntaxes {
			cat := model.Catalogue(syn)
			var rec func(from int, chosen []int)
			rec = func(from int, chosen []int) {
				if len(chosen) == depth {
					idx, run := h.NextN()
					if run {
						f(idx, model.Apply(syn, cat, chosen...), len(chosen))
					}
					return
				}
				for i := from; i < len(cat); i++ {
					clash := false
					for _, c := range chosen {
						if cat[c].Slot == cat[i].Slot {
							clash = true
						}
					}
					if clash {
						continue
					}
					rec(i+1, append(append([]int(nil), chosen...), i))
				}
			}
			rec(0, nil)
		}
		if h.Expired() {
			h.Cap(fmt.Sprintf("deadline reached while enumerating workspaces with %d deviations; every workspace with fewer deviations was covered", depth))
			return
		}
	}
}

func wsDesc(ws *model.WS) string {
	syn := ws.Main().Syntax
	return fmt.Sprintf("base %s + [%s]", syn, strings.Join(ws.Notes, ", "))
}

func stringsReader(s string) *strings.Reader { return strings.NewReader(s) }
