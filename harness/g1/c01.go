package main

import (
	"context"
	"fmt"
	"os"
	"path/filepath"
	"regexp"
	"strings"

	"google.golang.org/protobuf/proto"

	"github.com/bufbuild/protocompile"
	"github.com/bufbuild/protocompile/internal/zzverif/hx"
	"github.com/bufbuild/protocompile/internal/zzverif/model"
	"github.com/bufbuild/protocompile/linker"
	"github.com/bufbuild/protocompile/reporter"
	"google.golang.org/protobuf/types/descriptorpb"
)

func init() {
	props["C01"] = func(h *hx.H) { runModel(h, "C01") }
	props["C02"] = func(h *hx.H) { runModel(h, "C02") }
}

func runModel(h *hx.H, prop string) {
	maxDev := 2
	if h.Thorough() {
		maxDev = 3
	}
	if prop == "C01" {
		h.Rule = fmt.Sprintf("inputs: every workspace obtained from the three-file base (main.proto in proto2 / proto3 / edition 2023) by <=%d deviations from a catalogue of %d/%d/%d (proto2/proto3/2023: labels, types, numbers, names, options, oneof placement, type spellings, maps, groups, reserved and extension ranges, extension declarations, enum values, extensions, service, imports and their modifiers, package, editions features), printed and compiled by the real compiler; oracle: the three-valued reference model of protoc's acceptance rules (DESIGN Appendix A/B): alarm iff the model accepts and the compiler rejects or the model rejects and the compiler accepts; UNKNOWN never alarms; non-trivial = workspace the model rejects", maxDev, len(model.Catalogue("proto2")), len(model.Catalogue("proto3")), len(model.Catalogue("2023")))
	} else {
		h.Rule = fmt.Sprintf("inputs: the workspaces of C01 (<=%d deviations) that the reference model accepts; oracle: the FileDescriptorProtos produced by the real compiler (source info off) equal the ones the reference model builds (names, numbers, labels, types, resolved type names, json_name, defaults, oneof indices incl. synthetic oneofs, map entries, groups, ranges, options, dependency lists); non-trivial = accepted workspace with >=1 deviation; plus, as a protoc-backed anchor, every file of the nine protoc-produced descriptor sets under internal/testdata whose source is present is compiled and compared with protoc's recorded descriptor", maxDev)
	}
	h.Assumptions = append(h.Assumptions, "protoc itself is not available in this sandbox: the oracle is a reference model of protoc's rules written from its documented algorithms, calibrated on the base workspaces; cases the model does not cover are UNKNOWN and never alarm")
	forEachWS(h, maxDev, func(idx int64, ws *model.WS, ndev int) {
		checkModel(h, prop, idx, ws, ndev)
	})
	if prop == "C02" {
		recordedCorpus(h)
	}
}

// recordedCorpus is the protoc-backed anchor of C02: every file of the descriptor sets that ship
// in the repository (produced by protoc) whose source is in the testdata is compiled and compared
// with protoc's recorded descriptor.
func recordedCorpus(h *hx.H) {
	root := os.Getenv("VERIF_REPO")
	if root == "" {
		root = "/repo"
	}
	td := filepath.Join(root, "internal/testdata")
	sets := []string{"all.protoset", "desc_test_complex.protoset", "desc_test_defaults.protoset", "desc_test_proto3_optional.protoset", "editions/all.protoset", "options/options.protoset", "options/test.protoset", "options/test_editions.protoset", "options/test_proto3.protoset"}
	for _, set := range sets {
		idx, run := h.NextN()
		if !run {
			continue
		}
		data, err := os.ReadFile(filepath.Join(td, set))
		if err != nil {
			h.Count("recorded_sets_missing", 1)
			continue
		}
		var fds descriptorpb.FileDescriptorSet
		if err := proto.Unmarshal(data, &fds); err != nil {
			h.Infra = append(h.Infra, "C02 corpus: "+err.Error())
			return
		}
		dirs := []string{filepath.Join(td, filepath.Dir(set)), td}
		for _, want := range fds.File {
			name := want.GetName()
			found := false
			for _, d := range dirs {
				if _, err := os.Stat(filepath.Join(d, name)); err == nil {
					found = true
				}
			}
			if !found {
				h.Count("recorded_files_without_source", 1)
				continue
			}
			h.Eval(1)
			h.State(1)
			h.Trans(1)
			var errs []string
			c := protocompile.Compiler{
				Resolver:       protocompile.WithStandardImports(&protocompile.SourceResolver{ImportPaths: dirs}),
				MaxParallelism: 1,
				Reporter:       reporter.NewReporter(func(e reporter.ErrorWithPos) error { errs = append(errs, e.Error()); return nil }, nil),
			}
			files, err := c.Compile(context.Background(), name)
			h.Trace(1)
			if err != nil {
				h.Violate("recorded-corpus-rejected", hx.CaseID(idx), fmt.Sprintf("%s (%s): protoc produced a descriptor, the compiler rejects: %v %v", name, set, err, errs), nil)
				continue
			}
			h.NonTrivial++
			h.Count("recorded_files_compared", 1)
			res := linker.ResolverFromFile(files[0])
			norm := func(m *descriptorpb.FileDescriptorProto) *descriptorpb.FileDescriptorProto {
				c := proto.Clone(m).(*descriptorpb.FileDescriptorProto)
				c.SourceCodeInfo = nil
				b, _ := proto.MarshalOptions{Deterministic: true}.Marshal(c)
				out := &descriptorpb.FileDescriptorProto{}
				if err := (proto.UnmarshalOptions{Resolver: res}).Unmarshal(b, out); err != nil {
					return c
				}
				return out
			}
			got, exp := norm(fdProto(files[0])), norm(want)
			if !proto.Equal(got, exp) {
				h.Violate("recorded-corpus-differs:"+diffField(got.ProtoReflect(), exp.ProtoReflect(), ""), hx.CaseID(idx), fmt.Sprintf("%s (%s): the compiled descriptor differs from the one protoc recorded", name, set), nil)
			}
		}
	}
}

func checkModel(h *hx.H, prop string, idx int64, ws *model.WS, ndev int) {
	h.Eval(1)
	h.State(1)
	h.Trans(1)
	desc := wsDesc(ws)
	fail := func(sig, format string, args ...any) {
		h.Violate(sig, hx.CaseID(idx), desc+": "+fmt.Sprintf(format, args...), map[string]any{"workspace": ws.String()})
	}
	want := model.Check(ws)
	src := ws.Sources()
	res := compile(src, protocompile.SourceInfoNone, ws.Names()...)
	h.Trace(1)
	got := model.Accept
	if res.err != nil {
		got = model.Reject
	}
	// a recovered panic is not a verdict
	if res.err != nil && strings.Contains(res.err.Error(), "panic handling") {
		if prop == "C01" {
			fail("compiler-panics:"+errClass(res.err.Error()), "the compile ends with a recovered panic: %v", res.err)
		}
		return
	}
	h.Outcome(fmt.Sprintf("model=%s compiler=%s", want.Verdict, got))
	if want.Verdict == model.Unknown {
		h.Count("model_unknown", 1)
		return
	}
	h.Count("model_decided", 1)
	if prop == "C01" {
		if want.Verdict == model.Reject {
			h.NonTrivial++
		}
		if want.Verdict == got {
			if h.WantSample() && want.Verdict == model.Reject && ndev == 2 {
				h.Sample(map[string]any{"case": hx.CaseID(idx), "workspace": desc, "model": want.Reason, "compiler": first(res.errs)})
			}
			return
		}
		if want.Verdict == model.Reject {
			fail("accepts-invalid:"+want.Rule, "the reference model rejects (%s) but the compiler accepts", want.Reason)
		} else {
			fail("rejects-valid:"+errClass(first1(res.errs, res.err)), "the reference model accepts but the compiler rejects: %s", first1(res.errs, res.err))
		}
		return
	}
	// C02
	if want.Verdict != model.Accept || got != model.Accept {
		return
	}
	if ndev > 0 {
		h.NonTrivial++
	}
	for _, f := range res.files {
		exp := want.Files[f.Path()]
		act := proto.Clone(fdProto(f))
		if exp == nil {
			continue
		}
		if !proto.Equal(act, exp) {
			fail("descriptor-differs:"+diffField(act.ProtoReflect(), exp.ProtoReflect(), ""), "%s: compiled descriptor differs from the reference model's\n got:  %v\n want: %v", f.Path(), short(fmt.Sprint(act), 1500), short(fmt.Sprint(exp), 1500))
			return
		}
	}
	if h.WantSample() && ndev == 2 {
		h.Sample(map[string]any{"case": hx.CaseID(idx), "workspace": desc})
	}
}

func first(s []string) string {
	if len(s) == 0 {
		return ""
	}
	return s[0]
}

func short(s string, n int) string {
	if len(s) <= n {
		return s
	}
	return s[:n/2] + " … " + s[len(s)-n/2:]
}

var rePos = regexp.MustCompile(`^[^ ]+:\d+:\d+: `)
var reNames = regexp.MustCompile("\"[^\"]*\"|`[^`]*`|[A-Za-z_][A-Za-z0-9_]*(\\.[A-Za-z_][A-Za-z0-9_]*)+|\\d+")

// errClass reduces a compiler error message to its wording (no positions, names or numbers).
func errClass(msg string) string {
	msg = rePos.ReplaceAllString(msg, "")
	msg = reNames.ReplaceAllString(msg, "_")
	if len(msg) > 70 {
		msg = msg[:70]
	}
	return msg
}
