package main

import (
	"fmt"
	"regexp"

	"google.golang.org/protobuf/proto"

	"github.com/bufbuild/protocompile"
	"github.com/bufbuild/protocompile/internal/zzverif/hx"
	"github.com/bufbuild/protocompile/internal/zzverif/model"
)

func init() {
	props["C01"] = func(h *hx.H) { runModel(h, "C01") }
	props["C02"] = func(h *hx.H) { runModel(h, "C02") }
}

func runModel(h *hx.H, prop string) {
	maxDev := 2
	if h.Thorough() {
		maxDev = 3
	}
	if prop == "C01" {
		h.Rule = fmt.Sprintf("inputs: every workspace obtained from the three-file base (main.proto in proto2 / proto3 / edition 2023) by <=%d deviations from a catalogue of about 280 (labels, types, numbers, names, options, oneof placement, type spellings, maps, groups, reserved and extension ranges, enum values, extensions, service, imports, package), printed and compiled by the real compiler; oracle: the three-valued reference model of protoc's acceptance rules (DESIGN Appendix A/B): alarm iff the model accepts and the compiler rejects or the model rejects and the compiler accepts; UNKNOWN never alarms; non-trivial = workspace the model rejects", maxDev)
	} else {
		h.Rule = fmt.Sprintf("inputs: the workspaces of C01 (<=%d deviations) that the reference model accepts; oracle: the FileDescriptorProtos produced by the real compiler (source info off) equal the ones the reference model builds (names, numbers, labels, types, resolved type names, json_name, defaults, oneof indices incl. synthetic oneofs, map entries, groups, ranges, options, dependency lists); non-trivial = accepted workspace with >=1 deviation", maxDev)
	}
	h.Assumptions = append(h.Assumptions, "protoc itself is not available in this sandbox: the oracle is a reference model of protoc's rules written from its documented algorithms, calibrated on the base workspaces; cases the model does not cover are UNKNOWN and never alarm")
	forEachWS(h, maxDev, func(idx int64, ws *model.WS, ndev int) {
		checkModel(h, prop, idx, ws, ndev)
	})
}

func checkModel(h *hx.H, prop string, idx int64, ws *model.WS, ndev int) {
	h.Eval(1)
	h.State(1)
	h.Trans(1)
	desc := wsDesc(ws)
	fail := func(sig, format string, args ...any) {
		h.Violate(sig, hx.CaseID(idx), desc+": "+fmt.Sprintf(format, args...), map[string]any{"workspace": ws.String()})
	}
	want := model.Check(ws)
	src := ws.Sources()
	res := compile(src, protocompile.SourceInfoNone, ws.Names()...)
	h.Trace(1)
	got := model.Accept
	if res.err != nil {
		got = model.Reject
	}
	h.Outcome(fmt.Sprintf("model=%s compiler=%s", want.Verdict, got))
	if want.Verdict == model.Unknown {
		h.Count("model_unknown", 1)
		return
	}
	h.Count("model_decided", 1)
	if prop == "C01" {
		if want.Verdict == model.Reject {
			h.NonTrivial++
		}
		if want.Verdict == got {
			if h.WantSample() && want.Verdict == model.Reject && ndev == 2 {
				h.Sample(map[string]any{"case": hx.CaseID(idx), "workspace": desc, "model": want.Reason, "compiler": first(res.errs)})
			}
			return
		}
		if want.Verdict == model.Reject {
			fail("accepts-invalid:"+want.Rule, "the reference model rejects (%s) but the compiler accepts", want.Reason)
		} else {
			fail("rejects-valid:"+errClass(first(res.errs)), "the reference model accepts but the compiler rejects: %s", first(res.errs))
		}
		return
	}
	// C02
	if want.Verdict != model.Accept || got != model.Accept {
		return
	}
	if ndev > 0 {
		h.NonTrivial++
	}
	for _, f := range res.files {
		exp := want.Files[f.Path()]
		act := proto.Clone(fdProto(f))
		if exp == nil {
			continue
		}
		if !proto.Equal(act, exp) {
			fail("descriptor-differs:"+diffField(act.ProtoReflect(), exp.ProtoReflect(), ""), "%s: compiled descriptor differs from the reference model's\n got:  %v\n want: %v", f.Path(), short(fmt.Sprint(act), 1500), short(fmt.Sprint(exp), 1500))
			return
		}
	}
	if h.WantSample() && ndev == 2 {
		h.Sample(map[string]any{"case": hx.CaseID(idx), "workspace": desc})
	}
}

func first(s []string) string {
	if len(s) == 0 {
		return ""
	}
	return s[0]
}

func short(s string, n int) string {
	if len(s) <= n {
		return s
	}
	return s[:n/2] + " … " + s[len(s)-n/2:]
}

var rePos = regexp.MustCompile(`^[^ ]+:\d+:\d+: `)
var reNames = regexp.MustCompile("\"[^\"]*\"|`[^`]*`|[A-Za-z_][A-Za-z0-9_]*(\\.[A-Za-z_][A-Za-z0-9_]*)+|\\d+")

// errClass reduces a compiler error message to its wording (no positions, names or numbers).
func errClass(msg string) string {
	msg = rePos.ReplaceAllString(msg, "")
	msg = reNames.ReplaceAllString(msg, "_")
	if len(msg) > 70 {
		msg = msg[:70]
	}
	return msg
}
