package main

import (
	"strings"
)

// Reference model of protoc's comment attribution (io/tokenizer.cc NextWithComments and
// CommentCollector; compiler/parser.cc ConsumeEndOfDeclaration), DESIGN Appendix E. It works on
// the source text alone and uses no code of the repository.

type ctok struct {
	text             string
	off, end         int // byte offsets
	line, col        int // 0-based start position, tab stops of 8, one column per byte (protoc's rule)
	endLine, endCol  int // position just after the token
}

func advance(line, col int, c byte) (int, int) {
	switch c {
	case '\n':
		return line + 1, 0
	case '\t':
		return line, col + 8 - col%8
	}
	return line, col + 1
}

func isIdentStart(c byte) bool { return c == '_' || c >= 'a' && c <= 'z' || c >= 'A' && c <= 'Z' }
func isIdentChar(c byte) bool  { return isIdentStart(c) || c >= '0' && c <= '9' }

// protoTokens splits a source text into protoc tokens (comments and blanks skipped).
func protoTokens(src string) []ctok {
	var out []ctok
	line, col := 0, 0
	i := 0
	step := func(n int) {
		for k := 0; k < n; k++ {
			line, col = advance(line, col, src[i])
			i++
		}
	}
	if strings.HasPrefix(src, "\xef\xbb\xbf") {
		i = 3 // the BOM takes no columns
	}
	for i < len(src) {
		c := src[i]
		switch {
		case c == ' ' || c == '\t' || c == '\n' || c == '\r' || c == '\v' || c == '\f':
			step(1)
		case c == '/' && i+1 < len(src) && src[i+1] == '/':
			for i < len(src) && src[i] != '\n' {
				step(1)
			}
		case c == '/' && i+1 < len(src) && src[i+1] == '*':
			j := strings.Index(src[i+2:], "*/")
			if j < 0 {
				step(len(src) - i)
			} else {
				step(j + 4)
			}
		default:
			t := ctok{off: i, line: line, col: col}
			switch {
			case isIdentStart(c):
				j := i
				for j < len(src) && isIdentChar(src[j]) {
					j++
				}
				step(j - i)
			case c >= '0' && c <= '9' || c == '.' && i+1 < len(src) && src[i+1] >= '0' && src[i+1] <= '9':
				j := i
				for j < len(src) && (isIdentChar(src[j]) || src[j] == '.' || (src[j] == '+' || src[j] == '-') && (src[j-1] == 'e' || src[j-1] == 'E')) {
					j++
				}
				step(j - i)
			case c == '"' || c == '\'':
				j := i + 1
				for j < len(src) && src[j] != c && src[j] != '\n' {
					if src[j] == '\\' && j+1 < len(src) {
						j++
					}
					j++
				}
				if j < len(src) && src[j] == c {
					j++
				}
				step(j - i)
			default:
				step(1)
			}
			t.end, t.endLine, t.endCol = i, line, col
			t.text = src[t.off:t.end]
			out = append(out, t)
		}
	}
	return out
}

// cdecl is one declaration: first token, terminator (`;` or the `{` that opens its body) and last
// token (`;` or the matching `}`), as token indices. null marks an empty statement.
type cdecl struct {
	s, t, e int
	null    bool
	// filled in by attribute
	leading, trailing string
	detached          []string
	unsure            bool // protoc's behaviour here could not be established; not compared
}

// scanDecls finds the declarations of a file and the sequence of end-of-declaration tokens.
func scanDecls(toks []ctok) (decls []*cdecl, eod []int, kind map[int]*cdecl) {
	kind = map[int]*cdecl{} // end-of-declaration token index -> declaration it terminates (nil for a closing brace)
	matching := func(i int) int { // index of the bracket matching toks[i]
		open, close := toks[i].text, map[string]string{"{": "}", "[": "]", "(": ")"}[toks[i].text]
		depth := 0
		for j := i; j < len(toks); j++ {
			switch toks[j].text {
			case open:
				depth++
			case close:
				depth--
				if depth == 0 {
					return j
				}
			}
		}
		return len(toks) - 1
	}
	var body func(i int, inBody bool) int
	body = func(i int, inBody bool) int {
		for i < len(toks) {
			if toks[i].text == "}" && inBody {
				return i
			}
			s := i
			if toks[i].text == ";" {
				d := &cdecl{s: i, t: i, e: i, null: true}
				decls = append(decls, d)
				eod = append(eod, i)
				kind[i] = d
				i++
				continue
			}
			j := i
			done := false
			for j < len(toks) && !done {
				switch toks[j].text {
				case "(", "[":
					j = matching(j) + 1
				case "{":
					if j > 0 && (toks[j-1].text == "=" || toks[j-1].text == ":") {
						j = matching(j) + 1 // aggregate value
						continue
					}
					d := &cdecl{s: s, t: j}
					decls = append(decls, d)
					eod = append(eod, j)
					kind[j] = d
					k := body(j+1, true)
					d.e = k
					if k < len(toks) {
						eod = append(eod, k)
						kind[k] = nil
					}
					i = k + 1
					done = true
				case ";":
					d := &cdecl{s: s, t: j, e: j}
					decls = append(decls, d)
					eod = append(eod, j)
					kind[j] = d
					i = j + 1
					done = true
				case "}":
					// a statement without terminator at the end of a body
					i = j
					done = true
				default:
					j++
				}
			}
			if !done {
				return len(toks)
			}
		}
		return i
	}
	body(0, false)
	return decls, eod, kind
}

const wsNoNewline = " \t\r\v\f"

// collect simulates Tokenizer::NextWithComments starting right after a token that ended at
// offset pos on line prevLine (pos < 0: start of file). nextLine is the line of the next token
// (-1 at end of file), nextText its text.
func collect(src string, pos int, prevLine int, atStart bool, nextOff int, nextLine int, nextText string) (trailing string, detached []string, leading string) {
	var buf strings.Builder
	hasComment, isLine := false, false
	canAttachToPrev, hasTrailing := true, false
	numComments := 0
	clear := func() { buf.Reset(); hasComment = false }
	flush := func() {
		if hasComment {
			if canAttachToPrev {
				trailing += buf.String()
				hasTrailing = true
				canAttachToPrev = false
			} else {
				detached = append(detached, buf.String())
			}
			clear()
			numComments++
		}
	}
	lineBuf := func() {
		if hasComment && !isLine {
			flush()
		}
		hasComment, isLine = true, true
	}
	blockBuf := func() {
		if hasComment {
			flush()
		}
		hasComment, isLine = true, false
	}
	i := pos
	line := prevLine
	end := nextOff
	if end < 0 {
		end = len(src)
	}
	skipWS := func() {
		for i < end && strings.IndexByte(wsNoNewline, src[i]) >= 0 {
			i++
		}
	}
	readLine := func() {
		i += 2
		for i < len(src) && src[i] != '\n' {
			buf.WriteByte(src[i])
			i++
		}
		if i < len(src) {
			buf.WriteByte('\n')
			i++
			line++
		}
	}
	readBlock := func() {
		i += 2
		for i < len(src) {
			c := src[i]
			switch {
			case c == '\n':
				buf.WriteByte('\n')
				i++
				line++
				for i < len(src) && strings.IndexByte(wsNoNewline, src[i]) >= 0 {
					i++
				}
				if i < len(src) && src[i] == '*' {
					i++
					if i < len(src) && src[i] == '/' {
						i++
						return
					}
				}
			case c == '*' && i+1 < len(src) && src[i+1] == '/':
				i += 2
				return
			default:
				buf.WriteByte(c)
				i++
			}
		}
	}
	commentStart := func() int { // 0 none, 1 line, 2 block
		if i < end && i+1 < len(src) && src[i] == '/' {
			if src[i+1] == '/' {
				return 1
			}
			if src[i+1] == '*' {
				return 2
			}
		}
		return 0
	}
	trailingEndLine := -1
	finish := func() (string, []string, string) {
		// reached the next token (or the end of the file)
		if nextLine < 0 || nextText == "}" || nextText == "]" || nextText == ")" {
			flush()
		}
		if nextLine >= 0 && (prevLine == nextLine || trailingEndLine == nextLine) {
			// MaybeDetachComment
			count := numComments
			if hasComment {
				count++
			}
			if count == 1 {
				if hasTrailing {
					detached = append([]string{trailing}, detached...)
					trailing = ""
				}
				flush()
			}
		}
		if hasComment {
			leading = buf.String()
		}
		return trailing, detached, leading
	}
	if atStart {
		if strings.HasPrefix(src, "\xef\xbb\xbf") {
			i = 3
		} else {
			i = 0
		}
		canAttachToPrev = false
	} else {
		skipWS()
		switch commentStart() {
		case 1:
			trailingEndLine = line
			lineBuf()
			readLine()
			flush()
		case 2:
			blockBuf()
			readBlock()
			trailingEndLine = line
			skipWS()
			if i < end && src[i] == '\n' {
				i++
				line++
			}
			// (older protoc versions dropped the comment when the next token followed on the same
			// line; the recorded output of the current one keeps it as trailing and lets
			// MaybeDetachComment sort it out)
			flush()
		default:
			if i < end && src[i] == '\n' {
				i++
				line++
			} else {
				return "", nil, "" // next token on the same line, no comments
			}
		}
	}
	for {
		skipWS()
		switch commentStart() {
		case 1:
			lineBuf()
			readLine()
		case 2:
			blockBuf()
			readBlock()
			skipWS()
			if i < end && src[i] == '\n' {
				i++
				line++
			}
		default:
			if i < end && src[i] == '\n' {
				i++
				line++
				flush()
				canAttachToPrev = false
			} else {
				return finish()
			}
		}
	}
}

// attribute computes, for every declaration of the text, the comments protoc attaches to it.
func attribute(src string) (toks []ctok, decls []*cdecl) {
	toks = protoTokens(src)
	decls, eod, kind := scanDecls(toks)
	next := func(q int) (int, int, string) {
		if q+1 < len(toks) {
			return toks[q+1].off, toks[q+1].endLine, toks[q+1].text
		}
		return -1, -1, ""
	}
	var upDoc string
	var upDet []string
	{
		off, ln, tx := next(-1)
		_, det, lead := collect(src, 0, 0, true, off, ln, tx)
		upDet, upDoc = det, lead
		// a comment on the first line in front of the first token: by the letter of the
		// algorithm it is detached (the "previous token" is on the same line); not decided
		if ln == 0 && len(toks) > 0 && strings.Contains(src[:toks[0].off], "/") && len(decls) > 0 {
			decls[0].unsure = true
		}
	}
	for _, q := range eod {
		off, ln, tx := next(q)
		trail, det, lead := collect(src, toks[q].end, toks[q].endLine, false, off, ln, tx)
		leading := upDoc
		upDoc = lead
		d := kind[q]
		switch {
		case d != nil && !d.null:
			d.leading, d.trailing, d.detached = leading, trail, upDet
			upDet = det
		case toks[q].text == "}":
			upDet = det
		default:
			upDet = append(append([]string(nil), det...), upDet...)
		}
	}
	return toks, decls
}
