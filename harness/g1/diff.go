package main

import (
	"fmt"

	"google.golang.org/protobuf/proto"
	"google.golang.org/protobuf/reflect/protoreflect"
)

// diffField returns the path (field names, no indices) of the first field in which two messages
// of the same type differ; used to give descriptor disagreements a stable signature.
func diffField(a, b protoreflect.Message, prefix string) string {
	fields := a.Descriptor().Fields()
	for i := 0; i < fields.Len(); i++ {
		f := fields.Get(i)
		p := prefix + string(f.Name())
		if a.Has(f) != b.Has(f) {
			return p
		}
		if !a.Has(f) {
			continue
		}
		va, vb := a.Get(f), b.Get(f)
		switch {
		case f.IsMap():
			if fmt.Sprint(va) != fmt.Sprint(vb) {
				return p
			}
		case f.IsList():
			la, lb := va.List(), vb.List()
			if la.Len() != lb.Len() {
				return p + "(len)"
			}
			for j := 0; j < la.Len(); j++ {
				if f.Message() != nil {
					if !proto.Equal(la.Get(j).Message().Interface(), lb.Get(j).Message().Interface()) {
						return diffField(la.Get(j).Message(), lb.Get(j).Message(), p+".")
					}
				} else if !va.Equal(vb) {
					return p
				}
			}
		case f.Message() != nil:
			if !proto.Equal(va.Message().Interface(), vb.Message().Interface()) {
				return diffField(va.Message(), vb.Message(), p+".")
			}
		default:
			if !va.Equal(vb) {
				return p
			}
		}
	}
	if string(a.GetUnknown()) != string(b.GetUnknown()) {
		return prefix + "(unknown fields)"
	}
	return prefix + "?"
}
