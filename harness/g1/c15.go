package main

import (
	"fmt"
	"sort"
	"strings"

	"google.golang.org/protobuf/types/descriptorpb"

	"github.com/bufbuild/protocompile"
	"github.com/bufbuild/protocompile/internal/zzverif/hx"
	"github.com/bufbuild/protocompile/internal/zzverif/model"
)

func init() { props["C15"] = runC15 }

// A placement puts a definition named T at one place of the workspace.
type place struct {
	name  string
	kinds []string // allowed kinds of the definition
}

var scopePlaces = []place{
	{"in-M", []string{"message", "enum", "field", "enum-value"}},     // a.b.c.O.M.T
	{"in-O", []string{"message", "enum", "field", "enum-value"}},     // a.b.c.O.T
	{"main-file", []string{"message", "enum", "enum-value", "service"}}, // <pm>.T
	{"dep-file", []string{"message", "enum", "enum-value"}},          // <pd>.T
	{"pub-file", []string{"message", "enum"}},                        // <pp>.T, re-exported publicly by dep
	{"hidden-file", []string{"message", "enum"}},                     // imported by dep non-publicly: invisible
	{"dep-nested", []string{"message"}},                              // <pd>.W.T
}

func defDecl(kind string, lab string) []any {
	switch kind {
	case "message":
		return []any{&model.Msg{Name: "T", Body: []any{&model.Msg{Name: "U"}, &model.ExtRange{Ranges: [][2]int64{{100, 200}}}}}}
	case "enum":
		return []any{&model.Enum{Name: "T", Body: []any{&model.EnumVal{Name: "T0", Number: 0}}}}
	case "field":
		return []any{&model.Field{Label: lab, Type: "int32", Name: "T", Number: 90}}
	case "enum-value":
		return []any{&model.Enum{Name: "TE", Body: []any{&model.EnumVal{Name: "TZ", Number: 0}, &model.EnumVal{Name: "T", Number: 1}}}}
	case "service":
		return []any{&model.Svc{Name: "T"}}
	}
	return nil
}

// scopeWS builds the workspace for one layout. site: 0 field type in M, 1 rpc input, 2 extendee.
func scopeWS(pm, pd string, placed map[int]string, site int, spelling string) *model.WS {
	const lab = "optional"
	pp := "a"
	pub := &model.File{Name: "pub.proto", Syntax: "proto2", Package: pp}
	hidden := &model.File{Name: "hidden.proto", Syntax: "proto2", Package: pd}
	dep := &model.File{Name: "dep.proto", Syntax: "proto2", Package: pd, Imports: []model.Import{{Path: "pub.proto", Kind: "public"}, {Path: "hidden.proto"}}}
	w := &model.Msg{Name: "W"}
	dep.Decls = append(dep.Decls, w, &model.Msg{Name: "Ext", Body: []any{&model.ExtRange{Ranges: [][2]int64{{100, 200}}}}})
	m := &model.Msg{Name: "M"}
	o := &model.Msg{Name: "O", Body: []any{m}}
	main := &model.File{Name: "main.proto", Syntax: "proto2", Package: pm, Imports: []model.Import{{Path: "dep.proto"}}, Decls: []any{o}}
	for pi, kind := range placed {
		d := defDecl(kind, lab)
		switch scopePlaces[pi].name {
		case "in-M":
			m.Body = append(m.Body, d...)
		case "in-O":
			o.Body = append(o.Body, d...)
		case "main-file":
			main.Decls = append(main.Decls, d...)
		case "dep-file":
			dep.Decls = append(dep.Decls, d...)
		case "pub-file":
			pub.Decls = append(pub.Decls, d...)
		case "hidden-file":
			hidden.Decls = append(hidden.Decls, d...)
		case "dep-nested":
			w.Body = append(w.Body, d...)
		}
	}
	switch site {
	case 0:
		m.Body = append(m.Body, &model.Field{Label: lab, Type: spelling, Name: "ref", Number: 1})
	case 1:
		main.Decls = append(main.Decls, &model.Svc{Name: "Svc", Methods: []*model.Method{{Name: "Call", In: spelling, Out: "O"}}})
	case 2:
		m.Body = append(m.Body, &model.ExtBlock{Extendee: spelling, Fields: []*model.Field{{Label: lab, Type: "int32", Name: "xt", Number: 150}}})
	}
	return &model.WS{Files: []*model.File{pub, hidden, dep, main}}
}

// C15: relative type names resolve like protoc's LookupSymbol.
func runC15(h *hx.H) {
	maxPlaced := 2
	if h.Thorough() {
		maxPlaced = 3
	}
	h.Rule = fmt.Sprintf("inputs: four-file workspaces (main imports dep; dep imports pub publicly and hidden plainly) with main's package in {a.b.c, a.b, x, none, a.bb, ab.c, a.b.a} and dep's in {a.b, a, b, a.b.c, none}; a definition named T placed at <=%d of seven places (inside the referencing message M, inside its parent O, main's file scope, dep's file scope, the publicly re-exported file, the invisible file, nested in a dep message) as message / enum / field / enum value / service; a reference from one of three sites (field type, rpc request type, extendee) spelled as every dotted suffix of every placed definition's full name and of M's, with and without leading dot and with `.U` appended; oracle: the reference implementation of protoc's LookupSymbol (DESIGN Appendix B) embedded in the schema model: same accept/reject, and on accept the same resolved full name in the descriptor; non-trivial = layout with >=2 definitions", maxPlaced)
	h.Assumptions = append(h.Assumptions, "protoc itself is not available: the oracle is a reference implementation of DescriptorBuilder::LookupSymbolNoPlaceholder written from protoc's documented algorithm")
	pms := []string{"a.b.c", "a.b", "x", "", "a.bb", "ab.c", "a.b.a"}
	pds := []string{"a.b", "a", "b", "a.b.c", ""}
	var rec func(from int, placed map[int]string)
	layouts := [](map[int]string){}
	rec = func(from int, placed map[int]string) {
		cp := map[int]string{}
		for k, v := range placed {
			cp[k] = v
		}
		layouts = append(layouts, cp)
		if len(placed) == maxPlaced {
			return
		}
		for i := from; i < len(scopePlaces); i++ {
			for _, k := range scopePlaces[i].kinds {
				placed[i] = k
				rec(i+1, placed)
				delete(placed, i)
			}
		}
	}
	rec(0, map[int]string{})
	for _, pm := range pms {
		for _, pd := range pds {
			for _, placed := range layouts {
				// spellings: suffixes of the full names of the placed definitions and of M
				full := map[string]bool{}
				q := func(parts ...string) string {
					var out []string
					for _, p := range parts {
						if p != "" {
							out = append(out, p)
						}
					}
					return strings.Join(out, ".")
				}
				for pi := range placed {
					switch scopePlaces[pi].name {
					case "in-M":
						full[q(pm, "O", "M", "T")] = true
					case "in-O":
						full[q(pm, "O", "T")] = true
					case "main-file":
						full[q(pm, "T")] = true
					case "dep-file", "hidden-file":
						full[q(pd, "T")] = true
					case "pub-file":
						full[q("a", "T")] = true
					case "dep-nested":
						full[q(pd, "W", "T")] = true
					}
				}
				full[q(pm, "O", "M")] = true
				spell := map[string]bool{"T": true, "T.U": true}
				for f := range full {
					parts := strings.Split(f, ".")
					for i := range parts {
						s := strings.Join(parts[i:], ".")
						spell[s] = true
						if strings.HasSuffix(s, "T") {
							spell[s+".U"] = true
						}
					}
					spell["."+f] = true
				}
				var spellings []string
				for s := range spell {
					spellings = append(spellings, s)
				}
				sort.Strings(spellings)
				for site := 0; site < 3; site++ {
					for _, sp := range spellings {
						idx, run := h.NextN()
						if !run {
							continue
						}
						checkScope(h, idx, pm, pd, placed, site, sp)
					}
				}
			}
		}
	}
}

func checkScope(h *hx.H, idx int64, pm, pd string, placed map[int]string, site int, spelling string) {
	h.Eval(1)
	h.State(1)
	h.Trans(1)
	ws := scopeWS(pm, pd, placed, site, spelling)
	var pl []string
	for pi, k := range placed {
		pl = append(pl, scopePlaces[pi].name+":"+k)
	}
	sort.Strings(pl)
	siteName := []string{"field-type", "rpc-input", "extendee"}[site]
	desc := fmt.Sprintf("main package %q, dep package %q, T at [%s], %s spelled %q", pm, pd, strings.Join(pl, " "), siteName, spelling)
	fail := func(sig, format string, args ...any) {
		h.Violate(sig, hx.CaseID(idx), desc+": "+fmt.Sprintf(format, args...), map[string]any{"workspace": ws.String()})
	}
	if len(placed) >= 2 {
		h.NonTrivial++
	}
	want := model.Check(ws)
	res := compile(ws.Sources(), protocompile.SourceInfoNone, "main.proto")
	h.Trace(1)
	if want.Verdict == model.Unknown {
		h.Count("model_unknown", 1)
		return
	}
	got := model.Accept
	if res.err != nil {
		got = model.Reject
	}
	h.Outcome(fmt.Sprintf("model=%s compiler=%s", want.Verdict, got))
	if want.Verdict != got {
		if want.Verdict == model.Reject {
			fail("resolves-unresolvable:"+siteName+":"+want.Rule, "the reference lookup fails (%s) but the compiler accepts", want.Reason)
		} else {
			fail("fails-to-resolve:"+siteName+":"+errClass(first(res.errs)), "the reference lookup succeeds but the compiler rejects: %s", first(res.errs))
		}
		return
	}
	if got != model.Accept {
		return
	}
	// compare the resolved name
	var mainFD *descriptorpb.FileDescriptorProto
	for _, f := range res.files {
		if f.Path() == "main.proto" {
			mainFD = fdProto(f)
		}
	}
	exp := want.Files["main.proto"]
	resolved := func(fd *descriptorpb.FileDescriptorProto) string {
		switch site {
		case 0:
			m := fd.MessageType[0].NestedType[0]
			for _, f := range m.Field {
				if f.GetName() == "ref" {
					return f.GetTypeName() + " " + f.GetType().String()
				}
			}
		case 1:
			for _, s := range fd.Service {
				if s.GetName() == "Svc" {
					return s.Method[0].GetInputType()
				}
			}
		case 2:
			return fd.MessageType[0].NestedType[0].Extension[0].GetExtendee()
		}
		return "?"
	}
	if a, b := resolved(mainFD), resolved(exp); a != b {
		fail("resolves-differently:"+siteName, "the compiler resolves the reference to %s, the reference lookup to %s", a, b)
		return
	}
	if h.WantSample() && len(placed) >= 2 && strings.Contains(spelling, ".") {
		h.Sample(map[string]any{"case": hx.CaseID(idx), "layout": desc, "resolved": resolved(mainFD)})
	}
}
