package main

import (
	"context"
	"fmt"
	"io/fs"
	"strings"

	"google.golang.org/protobuf/proto"
	"google.golang.org/protobuf/types/descriptorpb"

	"github.com/bufbuild/protocompile"
	"github.com/bufbuild/protocompile/experimental/fdp"
	"github.com/bufbuild/protocompile/experimental/incremental"
	"github.com/bufbuild/protocompile/experimental/incremental/queries"
	"github.com/bufbuild/protocompile/experimental/ir"
	"github.com/bufbuild/protocompile/experimental/report"
	"github.com/bufbuild/protocompile/experimental/source"
	"github.com/bufbuild/protocompile/internal/zzverif/hx"
	"github.com/bufbuild/protocompile/internal/zzverif/model"
	"github.com/bufbuild/protocompile/linker"
)

func init() { props["C27"] = runC27 }

type memOpener struct{ files map[string]string }

func (m *memOpener) Open(path string) (*source.File, error) {
	if s, ok := m.files[path]; ok {
		return source.NewFile(path, s), nil
	}
	return nil, fs.ErrNotExist
}

type xcResult struct {
	ok     bool
	protos map[string]*descriptorpb.FileDescriptorProto
	errs   []string
}

// xcompile runs the experimental compiler (IR query + descriptor lowering) on a fresh executor.
func xcompile(src map[string]string, names []string) *xcResult {
	out := &xcResult{protos: map[string]*descriptorpb.FileDescriptorProto{}}
	opener := &source.Openers{source.WKTs(), &memOpener{src}}
	sess := &ir.Session{}
	ex := incremental.New(incremental.WithParallelism(1))
	qs := make([]incremental.Query[*ir.File], len(names))
	for i, p := range names {
		qs[i] = queries.IR{Opener: opener, Session: sess, Path: p}
	}
	res, rep, err := incremental.Run(context.Background(), ex, qs...)
	if err != nil {
		out.errs = append(out.errs, "run: "+err.Error())
		return out
	}
	for i := range rep.Diagnostics {
		d := &rep.Diagnostics[i]
		if d.Level() <= report.Error {
			out.errs = append(out.errs, d.Message())
		}
	}
	for i, r := range res {
		if r.Fatal != nil {
			out.errs = append(out.errs, "fatal: "+r.Fatal.Error())
			continue
		}
		if r.Value == nil || len(out.errs) > 0 {
			continue
		}
		data, err := fdp.DescriptorProtoBytes(r.Value)
		if err != nil {
			out.errs = append(out.errs, "lowering: "+err.Error())
			continue
		}
		fd := &descriptorpb.FileDescriptorProto{}
		if err := proto.Unmarshal(data, fd); err != nil {
			out.errs = append(out.errs, "lowering output does not unmarshal: "+err.Error())
			continue
		}
		out.protos[names[i]] = fd
	}
	out.ok = len(out.errs) == 0
	return out
}

// C27: the experimental compiler agrees with the stable compiler.
func runC27(h *hx.H) {
	maxDev := 2
	if h.Thorough() {
		maxDev = 3
	}
	h.Rule = fmt.Sprintf("inputs: every workspace within %d deviations of the three bases (the C01 generator: about 440 deviations incl. options, defaults, enum aliases, custom options, editions features), compiled by the stable compiler and by the experimental compiler (queries.IR on a fresh executor and session, fdp.DescriptorProtoBytes); oracle: same accept/reject; when both accept, equal FileDescriptorProtos after removing source code info and re-decoding both with the extension types of the stable result (so that known vs. unknown storage of extension values does not matter); a disagreement counts as a known finding only if its class (direction + diagnostic wording, or first differing descriptor field) is listed; non-trivial = workspace rejected by at least one compiler, or accepted with >=1 deviation", maxDev)
	forEachWS(h, maxDev, func(idx int64, ws *model.WS, ndev int) {
		h.Eval(1)
		h.State(1)
		h.Trans(2)
		desc := wsDesc(ws)
		fail := func(sig, format string, args ...any) {
			h.Violate(sig, hx.CaseID(idx), desc+": "+fmt.Sprintf(format, args...), map[string]any{"workspace": ws.String()})
		}
		src := ws.Sources()
		names := ws.Names()
		st := compile(src, protocompile.SourceInfoNone, names...)
		xc := xcompile(src, names)
		h.Trace(2)
		stOK := st.err == nil
		h.Outcome(fmt.Sprintf("stable=%v experimental=%v", stOK, xc.ok))
		if !stOK || !xc.ok || ndev > 0 {
			h.NonTrivial++
		}
		if stOK != xc.ok {
			if stOK {
				fail("experimental-rejects-valid:"+errClass(first(xc.errs)), "the stable compiler accepts, the experimental compiler reports: %s", first(xc.errs))
			} else {
				fail("experimental-accepts-invalid:"+errClass(first1(st.errs, st.err)), "the experimental compiler accepts, the stable compiler reports: %s", first1(st.errs, st.err))
			}
			return
		}
		if !stOK {
			return
		}
		var mainFile linker.File
		for _, f := range st.files {
			if f.Path() == "main.proto" {
				mainFile = f
			}
		}
		for _, f := range st.files {
			a := proto.Clone(fdProto(f)).(*descriptorpb.FileDescriptorProto)
			b := xc.protos[f.Path()]
			if b == nil {
				fail("experimental-no-descriptor", "no descriptor for %s", f.Path())
				return
			}
			a.SourceCodeInfo, b.SourceCodeInfo = nil, nil
			res := linker.ResolverFromFile(mainFile)
			if f.Path() != "main.proto" {
				res = linker.ResolverFromFile(f)
			}
			norm := func(m *descriptorpb.FileDescriptorProto) *descriptorpb.FileDescriptorProto {
				data, err := proto.MarshalOptions{Deterministic: true}.Marshal(m)
				if err != nil {
					return m
				}
				out := &descriptorpb.FileDescriptorProto{}
				if err := (proto.UnmarshalOptions{Resolver: res}).Unmarshal(data, out); err != nil {
					return m
				}
				return out
			}
			na, nb := norm(a), norm(b)
			if !proto.Equal(na, nb) {
				fail("experimental-descriptor-differs:"+diffField(nb.ProtoReflect(), na.ProtoReflect(), ""), "%s: descriptors differ\n experimental: %s\n stable:       %s", f.Path(), short(fmt.Sprint(nb), 1200), short(fmt.Sprint(na), 1200))
				return
			}
		}
		if h.WantSample() && ndev == 2 && strings.Contains(strings.Join(ws.Notes, " "), "custom") {
			h.Sample(map[string]any{"case": hx.CaseID(idx), "workspace": desc})
		}
	})
}
