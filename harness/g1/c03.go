package main

import (
	"fmt"
	"os"
	"path/filepath"
	"strings"

	"google.golang.org/protobuf/proto"
	"google.golang.org/protobuf/types/descriptorpb"

	"github.com/bufbuild/protocompile"
	"github.com/bufbuild/protocompile/internal/zzverif/hx"
)

func init() { props["C03"] = runC03 }

func spanKey(sl, sc, el, ec int) string { return fmt.Sprintf("%d:%d-%d:%d", sl, sc, el, ec) }

func locKey(l *descriptorpb.SourceCodeInfo_Location) string {
	s := l.Span
	if len(s) == 3 {
		return spanKey(int(s[0]), int(s[1]), int(s[0]), int(s[2]))
	}
	if len(s) == 4 {
		return spanKey(int(s[0]), int(s[1]), int(s[2]), int(s[3]))
	}
	return "?"
}

type commentDiff struct {
	what string
	sig  string
}

// compareComments checks the locations of one file against the reference attribution.
// It returns the first disagreement, the number of declarations compared and the number of
// declarations the model found but no location matches (not decided).
func compareComments(src string, locs []*descriptorpb.SourceCodeInfo_Location) (diff *commentDiff, compared, unmatched int) {
	toks, decls := attribute(src)
	byKey := map[string]*cdecl{}
	for _, d := range decls {
		if d.null || d.e >= len(toks) {
			continue
		}
		k := spanKey(toks[d.s].line, toks[d.s].col, toks[d.e].endLine, toks[d.e].endCol)
		if _, dup := byKey[k]; !dup {
			byKey[k] = d
		}
	}
	used := map[*cdecl]bool{}
	// several locations can share a declaration's span (an option statement and the option it
	// sets; a group field and its message): protoc's recorded output has the comments on the last
	// of them
	last := map[string]int{}
	for i, l := range locs {
		last[locKey(l)] = i
	}
	for i, l := range locs {
		d := byKey[locKey(l)]
		hasC := l.LeadingComments != nil || l.TrailingComments != nil || len(l.LeadingDetachedComments) > 0
		if d == nil || last[locKey(l)] != i {
			if hasC && len(l.Path) > 0 {
				return &commentDiff{fmt.Sprintf("location %v span %v carries comments (leading %q, trailing %q, %d detached) but is not the location of a declaration for the reference", l.Path, l.Span, l.GetLeadingComments(), l.GetTrailingComments(), len(l.LeadingDetachedComments)), "comments-on-non-declaration"}, compared, unmatched
			}
			continue
		}
		used[d] = true
		if d.unsure {
			continue
		}
		compared++
		kind := toks[d.s].text
		if kind != "message" && kind != "enum" && kind != "service" && kind != "rpc" && kind != "option" && kind != "import" && kind != "package" && kind != "syntax" && kind != "edition" && kind != "extend" && kind != "oneof" && kind != "reserved" && kind != "extensions" {
			kind = "field-or-value"
		}
		if l.GetLeadingComments() != d.leading {
			return &commentDiff{fmt.Sprintf("%s at %v (path %v): leading comment %q, reference %q", kind, l.Span, l.Path, l.GetLeadingComments(), d.leading), "leading:" + kind}, compared, unmatched
		}
		if l.GetTrailingComments() != d.trailing {
			return &commentDiff{fmt.Sprintf("%s at %v (path %v): trailing comment %q, reference %q", kind, l.Span, l.Path, l.GetTrailingComments(), d.trailing), "trailing:" + kind}, compared, unmatched
		}
		if strings.Join(l.LeadingDetachedComments, "\x00") != strings.Join(d.detached, "\x00") {
			return &commentDiff{fmt.Sprintf("%s at %v (path %v): detached comments %q, reference %q", kind, l.Span, l.Path, l.LeadingDetachedComments, d.detached), "detached:" + kind}, compared, unmatched
		}
	}
	for _, d := range decls {
		if !d.null && !used[d] {
			unmatched++
		}
	}
	return nil, compared, unmatched
}

// C03: source code info matches protoc - decided here for the comment attribution and for the
// stability of the location list and spans under re-layout.
func runC03(h *hx.H) {
	h.Rule = "gate: the reference model of protoc's comment attribution (tokenizer NextWithComments + parser ConsumeEndOfDeclaration) is first run on the three files whose protoc output ships in the repository (internal/testdata/source_info.protoset, 1259 recorded locations) and must reproduce the recorded leading, trailing and detached comments of every declaration; inputs: every arrangement of <=2 (thorough <=3) trivia values from a 24-value set (blank runs, line and block comments in same-line, next-line, detached and stacked positions, tabs, CRLF) in the token slots of five skeletons (a header-only file ending in option statements; file header with options; message with fields, compact options, oneof, map, group, ranges; enum; service with rpc bodies and extend block), compiled with standard source info; oracle: (1) comments of every declaration equal the reference attribution and no other location carries comments; (2) the list of location paths equals that of the plain layout and every span equals the plain layout's span mapped through the token positions of the variant; non-trivial = layout with >=1 comment"
	h.Assumptions = append(h.Assumptions, "protoc itself is not available: comment attribution is decided against a reference model validated on protoc's recorded output for three files; location paths and span structure are pinned to the plain layout of each skeleton, whose agreement with protoc is what the repository's own TestSourceCodeInfo establishes for its three files; columns after multi-byte characters on the same line are outside the alphabet (protoc counts bytes, which cannot be confirmed offline)")
	// ---- validation gate ----
	root := os.Getenv("VERIF_REPO")
	if root == "" {
		root = "/repo"
	}
	if h.Shard == 0 {
		data, err := os.ReadFile(filepath.Join(root, "internal/testdata/source_info.protoset"))
		if err != nil {
			h.Infra = append(h.Infra, "C03 gate: "+err.Error())
			return
		}
		var set descriptorpb.FileDescriptorSet
		if err := proto.Unmarshal(data, &set); err != nil {
			h.Infra = append(h.Infra, "C03 gate: "+err.Error())
			return
		}
		totalLocs, totalCompared := 0, 0
		for _, fd := range set.File {
			src, err := os.ReadFile(filepath.Join(root, "internal/testdata", fd.GetName()))
			if err != nil {
				h.Infra = append(h.Infra, "C03 gate: "+err.Error())
				return
			}
			locs := fd.GetSourceCodeInfo().GetLocation()
			totalLocs += len(locs)
			diff, compared, _ := compareComments(string(src), locs)
			totalCompared += compared
			if diff != nil {
				h.Infra = append(h.Infra, fmt.Sprintf("C03 gate: the reference model does not reproduce protoc's recorded comments for %s: %s", fd.GetName(), diff.what))
				return
			}
		}
		h.Count("gate_recorded_locations", int64(totalLocs))
		h.Count("gate_declarations_matched", int64(totalCompared))
	}
	// ---- layouts ----
	dev, win := 2, 3
	if h.Thorough() {
		dev, win = 3, 2
	}
	for si, skel := range c03Skeletons {
		baseText := strings.Join(skel, " ") + "\n"
		var basePaths []string
		var baseSpans [][4]int // token indices: start token, end token, (unused), (unused)
		baseOK := false
		{
			res := compile(map[string]string{"main.proto": baseText}, protocompile.SourceInfoStandard, "main.proto")
			if res.err != nil {
				h.Infra = append(h.Infra, fmt.Sprintf("C03: skeleton %d does not compile: %v %v", si, res.err, res.errs))
				return
			}
			toks := protoTokens(baseText)
			startAt, endAt := map[string]int{}, map[string]int{}
			for i, t := range toks {
				startAt[fmt.Sprint(t.line, ":", t.col)] = i
				endAt[fmt.Sprint(t.endLine, ":", t.endCol)] = i
			}
			baseOK = true
			for _, l := range fdProto(res.files[0]).GetSourceCodeInfo().GetLocation() {
				basePaths = append(basePaths, fmt.Sprint(l.Path))
				s := l.Span
				sl, sc, el, ec := int(s[0]), int(s[1]), int(s[0]), int(s[2])
				if len(s) == 4 {
					el, ec = int(s[2]), int(s[3])
				}
				a, ok1 := startAt[fmt.Sprint(sl, ":", sc)]
				b, ok2 := endAt[fmt.Sprint(el, ":", ec)]
				if len(l.Path) == 0 {
					a, b, ok1, ok2 = 0, len(toks)-1, true, true
				}
				if !ok1 || !ok2 {
					// a span that does not start and end at token boundaries (none is expected)
					baseSpans = append(baseSpans, [4]int{-1, -1})
					continue
				}
				baseSpans = append(baseSpans, [4]int{a, b})
			}
		}
		forEachLayout(skel, c03Trivia, dev, win, func(text string, slots map[int]string, _ func(map[int]string) string) {
			idx, run := h.NextN()
			if !run || !baseOK {
				return
			}
			h.Eval(1)
			h.State(1)
			h.Trans(1)
			fail := func(sig, format string, args ...any) {
				h.Violate(sig, hx.CaseID(idx), fmt.Sprintf("skeleton %d: ", si)+fmt.Sprintf(format, args...), map[string]any{"source": text})
			}
			res := compile(map[string]string{"main.proto": text}, protocompile.SourceInfoStandard, "main.proto")
			if res.err != nil {
				h.Count("rejected", 1) // e.g. an empty slot glued two tokens together
				return
			}
			h.Trace(1)
			hasComment := false
			for _, v := range slots {
				if strings.Contains(v, "/") {
					hasComment = true
				}
			}
			if hasComment {
				h.NonTrivial++
			}
			locs := fdProto(res.files[0]).GetSourceCodeInfo().GetLocation()
			// (2) same paths, spans mapped through token positions
			toks := protoTokens(text)
			if len(locs) != len(basePaths) {
				fail("locations-change-with-layout", "%d locations, the plain layout has %d", len(locs), len(basePaths))
				return
			}
			for i, l := range locs {
				if fmt.Sprint(l.Path) != basePaths[i] {
					fail("locations-change-with-layout", "location %d has path %v, in the plain layout %s", i, l.Path, basePaths[i])
					return
				}
				bs := baseSpans[i]
				if bs[0] < 0 || bs[1] >= len(toks) {
					continue
				}
				want := spanKey(toks[bs[0]].line, toks[bs[0]].col, toks[bs[1]].endLine, toks[bs[1]].endCol)
				if len(l.Path) == 0 {
					// the file's own span runs from the first token to the last
					want = spanKey(toks[0].line, toks[0].col, toks[len(toks)-1].endLine, toks[len(toks)-1].endCol)
				}
				if got := locKey(l); got != want {
					fail("span-differs:"+layoutTag(skel, slots), "path %v: span %s, but its tokens (%q .. %q) are at %s", l.Path, got, toks[bs[0]].text, toks[bs[1]].text, want)
					return
				}
			}
			// (1) comments
			if diff, _, _ := compareComments(text, locs); diff != nil {
				fail("comment-"+diff.sig, "%s", diff.what)
				return
			}
			if h.WantSample() && hasComment && len(slots) == 2 {
				h.Sample(map[string]any{"case": hx.CaseID(idx), "source": text})
			}
		})
	}
}

var c03Skeletons = [][]string{
	strings.Fields(`syntax = "proto2" ; package a . b ; import "google/protobuf/descriptor.proto" ; option java_package = "x" ; option ( fo ) = { a : 1 } ;
message Lit { optional int32 a = 1 ; } extend google . protobuf . FileOptions { optional Lit fo = 50001 ; }`),
	strings.Fields(`syntax = "proto2" ; message M { optional int32 a = 1 [ deprecated = true , json_name = "A" ] ; repeated string b = 2 ; oneof o { int32 c = 3 ; string d = 4 ; }
map < string , int32 > m = 5 ; optional group G = 6 { optional int32 g = 1 ; } reserved 10 to 12 , 15 ; reserved "zz" ; extensions 100 to 199 ; message N { } }`),
	strings.Fields(`syntax = "proto3" ; enum E { option allow_alias = true ; A = 0 ; B = 0 [ deprecated = true ] ; C = 1 ; reserved 5 to 7 ; } enum F { F0 = 0 ; }`),
	strings.Fields(`syntax = "proto2" ; message M { extensions 100 to 199 ; } service S { option deprecated = true ; rpc R ( M ) returns ( M ) { option deprecated = true ; } rpc Q ( stream M ) returns ( stream M ) ; }
extend M { optional int32 x = 100 ; optional M y = 101 ; }`),
}

func init() {
	// a file that ends with `;`-terminated top-level statements
	c03Skeletons = append(c03Skeletons, strings.Fields(`syntax = "proto3" ; package p . q ; import "google/protobuf/any.proto" ; option java_package = "x" ; option deprecated = true ;`))
}

var c03Trivia = []string{"", "\n", "\n\n", "\t", "  ", "\r\n", " // c\n", " // c\n\n", " /* c */ ", " /* c */\n", " /* c\n * d\n */\n", "\n// c\n", "\n// c\n// d\n", "\n// c\n\n", "\n\n// c\n", "\n\n// c\n\n", "\n\n// c\n\n// d\n",
	"\n/* c */\n", "\n/* c */ ", " // c\n// d\n", " /* c */ // d\n", "\n\t// c\n\t", "\n/* c */\n\n/* d */\n", " /* c */ /* d */ ",
	// continuation lines of block comments: asterisk in the first column, after blanks and tabs, doubled, absent
	"\n/*\n* c\n*/\n", "\n/* c\n*d\n\t * e\n  ** f\n g\n*/\n", " /** c\n  *\n  * d */\n"}
