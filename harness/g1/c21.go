package main

import (
	"google.golang.org/protobuf/encoding/prototext"
	"fmt"
	"strings"

	"google.golang.org/protobuf/proto"
	"google.golang.org/protobuf/reflect/protoreflect"
	"google.golang.org/protobuf/types/descriptorpb"

	"github.com/bufbuild/protocompile"
	"github.com/bufbuild/protocompile/internal/zzverif/hx"
	"github.com/bufbuild/protocompile/internal/zzverif/model"
	"github.com/bufbuild/protocompile/linker"
	"github.com/bufbuild/protocompile/options"
	"github.com/bufbuild/protocompile/parser"
	"github.com/bufbuild/protocompile/reporter"
)

func init() { props["C21"] = runC21 }

type optsAt struct {
	path string
	msg  protoreflect.Message // the options message
	elem protoreflect.Message // the element that owns it
}

// collectOptions walks a FileDescriptorProto and returns every set `options` message with its path.
func collectOptions(fd *descriptorpb.FileDescriptorProto) []optsAt {
	var out []optsAt
	var walk func(m protoreflect.Message, path string)
	walk = func(m protoreflect.Message, path string) {
		fields := m.Descriptor().Fields()
		for i := 0; i < fields.Len(); i++ {
			f := fields.Get(i)
			if f.Message() == nil || f.IsMap() || !m.Has(f) {
				continue
			}
			if f.Name() == "options" {
				out = append(out, optsAt{path + ".options", m.Get(f).Message(), m})
				continue
			}
			if f.Name() == "source_code_info" {
				continue
			}
			if f.IsList() {
				l := m.Get(f).List()
				for j := 0; j < l.Len(); j++ {
					walk(l.Get(j).Message(), fmt.Sprintf("%s.%s[%d]", path, f.Name(), j))
				}
			} else {
				walk(m.Get(f).Message(), path+"."+string(f.Name()))
			}
		}
	}
	walk(fd.ProtoReflect(), "file")
	return out
}

func uninterpreted(m protoreflect.Message) []*descriptorpb.UninterpretedOption {
	f := m.Descriptor().Fields().ByName("uninterpreted_option")
	if f == nil {
		return nil
	}
	var out []*descriptorpb.UninterpretedOption
	l := m.Get(f).List()
	for i := 0; i < l.Len(); i++ {
		out = append(out, l.Get(i).Message().Interface().(*descriptorpb.UninterpretedOption))
	}
	return out
}

// isSubsequence reports whether every element of sub equals (proto.Equal) an element of all, in order.
func isSubsequence(sub, all []*descriptorpb.UninterpretedOption) bool {
	j := 0
	for _, s := range sub {
		for j < len(all) && !proto.Equal(s, all[j]) {
			j++
		}
		if j == len(all) {
			return false
		}
		j++
	}
	return true
}

// C21: lenient and unlinked option interpretation agree with strict interpretation.
func runC21(h *hx.H) {
	maxDev := 2
	if h.Thorough() {
		maxDev = 3
	}
	h.Rule = fmt.Sprintf("inputs: main.proto of every workspace within %d deviations of the three bases (catalogue incl. built-in options with good and bad values, custom options of every element kind in scalar, aggregate, path, repeated and extension form, unknown and mistyped option names, editions features) whose dependencies compile and which links; oracle: with strict interpretation (linker.Link + options.InterpretOptions) as reference - when it succeeds, InterpretOptionsLenient on a fresh parse gives an equal proto, and InterpretUnlinkedOptions leaves in every options message only fields that strict also set with equal values, leaves the not-interpreted statements as a verbatim subsequence of the original uninterpreted options, turns every removed built-in statement into a set field, and gives exactly the options that strict interpretation gives for the file without the statements it left uninterpreted (a statement is applied completely or not at all); when strict fails, lenient and unlinked still return without panic and leave a verbatim subsequence; non-trivial = file with >=1 custom option or a failing strict interpretation", maxDev)
	forEachWS(h, maxDev, func(idx int64, ws *model.WS, ndev int) {
		h.Eval(1)
		desc := wsDesc(ws)
		fail := func(sig, format string, args ...any) {
			h.Violate(sig, hx.CaseID(idx), desc+": "+fmt.Sprintf(format, args...), map[string]any{"workspace": ws.String()})
		}
		src := ws.Sources()
		var depNames []string
		for _, n := range ws.Names() {
			if n != "main.proto" {
				depNames = append(depNames, n)
			}
		}
		mainFile := ws.Main()
		// standard imports of main (descriptor.proto, go_features.proto, ...) come from a stub file
		// that imports them
		var stub strings.Builder
		stub.WriteString("syntax = \"proto3\";\npackage zz.stub;\n")
		needStub := false
		for _, im := range mainFile.Imports {
			if ws.File(im.Path) == nil && model.IsStdImport(im.Path) {
				fmt.Fprintf(&stub, "import %q;\n", im.Path)
				needStub = true
			}
		}
		if needStub {
			src["zz_stub.proto"] = stub.String()
			depNames = append(depNames, "zz_stub.proto")
		}
		dres := compile(src, protocompile.SourceInfoNone, depNames...)
		if dres.err != nil {
			h.Count("deps_rejected", 1)
			return
		}
		// dependencies of main, including standard imports, resolved through a compile of a stub
		var deps linker.Files
		for _, im := range mainFile.Imports {
			var found linker.File
			for _, f := range dres.files {
				if f.Path() == im.Path {
					found = f
				}
				if g := f.FindImportByPath(im.Path); g != nil && found == nil {
					found = g
				}
			}
			if found == nil {
				h.Count("import_unavailable", 1)
				return
			}
			deps = append(deps, found)
		}
		parse := func() parser.Result {
			rep := reporter.NewHandler(reporter.NewReporter(func(reporter.ErrorWithPos) error { return nil }, nil))
			a, err := parser.Parse("main.proto", strings.NewReader(src["main.proto"]), rep)
			if err != nil {
				return nil
			}
			r, err := parser.ResultFromAST(a, true, rep)
			if err != nil {
				return nil
			}
			return r
		}
		pa := parse()
		if pa == nil {
			h.Count("parse_rejected", 1)
			return
		}
		h.State(1)
		orig := proto.Clone(pa.FileDescriptorProto()).(*descriptorpb.FileDescriptorProto)
		origOpts := map[string][]*descriptorpb.UninterpretedOption{}
		for _, o := range collectOptions(orig) {
			origOpts[o.path] = uninterpreted(o.msg)
		}
		link := func(p parser.Result) linker.Result {
			rep := reporter.NewHandler(reporter.NewReporter(func(reporter.ErrorWithPos) error { return nil }, nil))
			l, err := linker.Link(p, deps, nil, rep)
			if err != nil || rep.Error() != nil {
				return nil
			}
			return l
		}
		la := link(pa)
		if la == nil {
			h.Count("link_rejected", 1)
			return
		}
		h.Trace(1)
		var strictErrs []string
		srep := reporter.NewHandler(reporter.NewReporter(func(e reporter.ErrorWithPos) error { strictErrs = append(strictErrs, e.Error()); return nil }, nil))
		_, serr := options.InterpretOptions(la, srep)
		strictOK := serr == nil && len(strictErrs) == 0
		A := la.FileDescriptorProto()
		custom := strings.Contains(strings.Join(ws.Notes, " "), "custom")
		if custom || !strictOK {
			h.NonTrivial++
		}
		h.Outcome(fmt.Sprintf("strict-ok=%v", strictOK))
		// lenient
		lb := link(parse())
		if lb == nil {
			h.Infra = append(h.Infra, "C21: second link of the same file fails: "+desc)
			return
		}
		h.Trans(1)
		_, lerr := options.InterpretOptionsLenient(lb)
		B := lb.FileDescriptorProto()
		if strictOK {
			if lerr != nil {
				fail("lenient-fails-where-strict-succeeds", "InterpretOptionsLenient: %v", lerr)
				return
			}
			if !proto.Equal(A, B) {
				fail("lenient-differs:"+diffField(B.ProtoReflect(), A.ProtoReflect(), ""), "lenient interpretation differs from strict")
				return
			}
		} else if lerr == nil {
			// (the statement demands nothing of lenient mode when strict fails; this only checks
			// that what is left is made of source statements, up to the linker's qualification of
			// extension names)
			for _, o := range collectOptions(B) {
				if !isSubsequence(unqualify(uninterpreted(o.msg), origOpts[o.path]), origOpts[o.path]) {
					fail("lenient-alters-uninterpreted", "%s: the options left uninterpreted are not a verbatim subsequence of the source statements: left %v, source %v", o.path, uninterpreted(o.msg), origOpts[o.path])
					return
				}
			}
		}
		// unlinked
		pc := parse()
		h.Trans(1)
		_, uerr := options.InterpretUnlinkedOptions(pc)
		C := pc.FileDescriptorProto()
		if uerr != nil {
			if strictOK {
				fail("unlinked-fails-where-strict-succeeds", "InterpretUnlinkedOptions: %v", uerr)
			}
			return
		}
		aOpts := map[string]protoreflect.Message{}
		for _, o := range collectOptions(A) {
			aOpts[o.path] = o.msg
		}
		// Exact reference for the unlinked result: strict interpretation of the file without the
		// statements that the unlinked pass left uninterpreted. A statement that stays
		// uninterpreted must not have contributed anything, and the others must have been applied
		// completely.
		if strictOK {
			pr := parse()
			left := map[string][]*descriptorpb.UninterpretedOption{}
			for _, o := range collectOptions(C) {
				left[o.path] = uninterpreted(o.msg)
			}
			for _, o := range collectOptions(pr.FileDescriptorProto()) {
				f := o.msg.Descriptor().Fields().ByName("uninterpreted_option")
				if f == nil {
					continue
				}
				l := o.msg.Mutable(f).List()
				var keep []protoreflect.Value
				pending := append([]*descriptorpb.UninterpretedOption(nil), left[o.path]...)
				for i := 0; i < l.Len(); i++ {
					u := l.Get(i).Message().Interface().(*descriptorpb.UninterpretedOption)
					dropped := false
					for k, r := range pending {
						if proto.Equal(r, u) {
							pending = append(pending[:k], pending[k+1:]...)
							dropped = true
							break
						}
					}
					if !dropped {
						keep = append(keep, l.Get(i))
					}
				}
				l.Truncate(0)
				for _, v := range keep {
					l.Append(v)
				}
			}
			if lr := link(pr); lr != nil {
				var rerrs int
				rrep := reporter.NewHandler(reporter.NewReporter(func(reporter.ErrorWithPos) error { rerrs++; return nil }, nil))
				if _, err := options.InterpretOptions(lr, rrep); err == nil && rerrs == 0 {
					dOpts := map[string]protoreflect.Message{}
					for _, o := range collectOptions(lr.FileDescriptorProto()) {
						dOpts[o.path] = o.msg
					}
					for _, o := range collectOptions(C) {
						got := proto.Clone(o.msg.Interface()).ProtoReflect()
						if f := got.Descriptor().Fields().ByName("uninterpreted_option"); f != nil {
							got.Clear(f)
						}
						var want protoreflect.Message
						if d, ok := dOpts[o.path]; ok {
							want = proto.Clone(d.Interface()).ProtoReflect()
						} else {
							want = got.New()
						}
						// compare through the wire so that extension values known to one side only
						// (unlinked files keep custom options uninterpreted) do not matter
						gb, _ := proto.MarshalOptions{Deterministic: true}.Marshal(got.Interface())
						wb, _ := proto.MarshalOptions{Deterministic: true}.Marshal(want.Interface())
						if string(gb) != string(wb) {
							fail("unlinked-applies-statements-partially", "%s: unlinked interpretation gives {%s}, strict interpretation of the statements it did not leave uninterpreted gives {%s} (left uninterpreted: %d)", o.path, prototext.MarshalOptions{}.Format(got.Interface()), prototext.MarshalOptions{}.Format(want.Interface()), len(left[o.path]))
							return
						}
					}
				} else {
					h.Count("reduced_strict_fails", 1)
				}
			} else {
				h.Count("reduced_link_fails", 1)
			}
		}
		for _, o := range collectOptions(C) {
			rest := uninterpreted(o.msg)
			if !isSubsequence(rest, origOpts[o.path]) {
				fail("unlinked-alters-uninterpreted", "%s: the options left uninterpreted are not a verbatim subsequence of the source statements", o.path)
				return
			}
			if !strictOK {
				continue
			}
			am, ok := aOpts[o.path]
			var bad string
			o.msg.Range(func(f protoreflect.FieldDescriptor, v protoreflect.Value) bool {
				if f.Name() == "uninterpreted_option" {
					return true
				}
				if !ok || !am.Has(am.Descriptor().Fields().ByNumber(f.Number())) {
					bad = fmt.Sprintf("field %s is set by unlinked interpretation but not by strict", f.Name())
					return false
				}
				// a message-valued option of which some statement stays uninterpreted can only hold
				// part of strict's value: every leaf it has must then equal strict's
				partial := false
				for _, u := range rest {
					if len(u.Name) > 0 && !f.IsExtension() && !u.Name[0].GetIsExtension() && u.Name[0].GetNamePart() == string(f.Name()) {
						partial = true
					}
					if len(u.Name) > 0 && f.IsExtension() && u.Name[0].GetIsExtension() {
						partial = true
					}
				}
				sv := am.Get(am.Descriptor().Fields().ByNumber(f.Number()))
				if partial && f.Message() != nil && !f.IsList() && !f.IsMap() {
					if leafSubset(v.Message(), sv.Message()) {
						return true
					}
				}
				if !v.Equal(sv) {
					show := func(x protoreflect.Value) string {
						if m, ok := x.Interface().(protoreflect.Message); ok {
							return "{" + prototext.MarshalOptions{}.Format(m.Interface()) + "}"
						}
						return fmt.Sprint(x)
					}
					bad = fmt.Sprintf("field %s: unlinked %s, strict %s", f.Name(), show(v), show(am.Get(am.Descriptor().Fields().ByNumber(f.Number()))))
					return false
				}
				return true
			})
			if bad != "" {
				fail("unlinked-differs-from-strict", "%s: %s", o.path, bad)
				return
			}
			// every built-in statement that is no longer uninterpreted became a set field
			for _, u := range origOpts[o.path] {
				if len(u.Name) == 0 || u.Name[0].GetIsExtension() {
					continue
				}
				stillThere := false
				for _, r := range rest {
					if proto.Equal(r, u) {
						stillThere = true
					}
				}
				if stillThere {
					continue
				}
				name := u.Name[0].GetNamePart()
				if name == "default" || name == "json_name" {
					continue // pseudo-options live on the field itself
				}
				f := o.msg.Descriptor().Fields().ByName(protoreflect.Name(name))
				if f == nil || !o.msg.Has(f) {
					fail("unlinked-loses-option", "%s: statement %s is neither left uninterpreted nor set", o.path, name)
					return
				}
			}
		}
		if h.WantSample() && custom && ndev == 2 {
			h.Sample(map[string]any{"case": hx.CaseID(idx), "workspace": desc, "strict_ok": strictOK})
		}
	})
}

// unqualify undoes the linker's rewriting of extension name parts to fully-qualified names
// (".o.fo" for "o.fo") where the original spelling is a suffix of the qualified one.
func unqualify(left, source []*descriptorpb.UninterpretedOption) []*descriptorpb.UninterpretedOption {
	var out []*descriptorpb.UninterpretedOption
	for _, u := range left {
		c := proto.Clone(u).(*descriptorpb.UninterpretedOption)
		for _, s := range source {
			if len(s.Name) != len(c.Name) {
				continue
			}
			ok := true
			for i := range s.Name {
				a, b := c.Name[i].GetNamePart(), s.Name[i].GetNamePart()
				if a != b && !(c.Name[i].GetIsExtension() && strings.HasPrefix(a, ".") && (strings.HasSuffix(a, "."+b) || a == b)) {
					ok = false
				}
			}
			if ok {
				for i := range s.Name {
					c.Name[i].NamePart = proto.String(s.Name[i].GetNamePart())
				}
				break
			}
		}
		out = append(out, c)
	}
	return out
}

// leafSubset reports whether every field set in a is set in b with an equal value, descending into
// singular message fields.
func leafSubset(a, b protoreflect.Message) bool {
	ok := true
	a.Range(func(f protoreflect.FieldDescriptor, v protoreflect.Value) bool {
		bf := b.Descriptor().Fields().ByNumber(f.Number())
		if f.IsExtension() {
			bf = f
		}
		if bf == nil || !b.Has(bf) {
			ok = false
			return false
		}
		if f.Message() != nil && !f.IsList() && !f.IsMap() {
			if !leafSubset(v.Message(), b.Get(bf).Message()) {
				ok = false
			}
			return ok
		}
		if !v.Equal(b.Get(bf)) {
			ok = false
		}
		return ok
	})
	return ok
}
