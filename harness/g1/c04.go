package main

import (
	"fmt"
	"strings"

	"google.golang.org/protobuf/reflect/protodesc"
	"google.golang.org/protobuf/reflect/protoreflect"
	"google.golang.org/protobuf/reflect/protoregistry"

	"github.com/bufbuild/protocompile"
	"github.com/bufbuild/protocompile/internal/zzverif/hx"
	"github.com/bufbuild/protocompile/internal/zzverif/model"
)

func init() { props["C04"] = runC04 }

// C04: the compiler's own descriptor implementation answers every attribute query like the Go
// protobuf runtime's implementation built from the same FileDescriptorProto.
func runC04(h *hx.H) {
	maxDev := 2
	if h.Thorough() {
		maxDev = 3
	}
	h.Rule = fmt.Sprintf("inputs: every compiler-accepted workspace within %d deviations of the three bases (catalogue incl. editions features at file, message, field and enum level with every value, proto3 optional, maps, groups, oneofs, extensions, defaults, packed, custom options); oracle: protodesc.NewFile over the produced FileDescriptorProtos succeeds and a parallel walk finds equal FullName, Index, Number, Kind, Cardinality, HasPresence, IsPacked, IsList, IsMap, IsExtension, IsWeak, JSONName, TextName, HasJSONName, HasOptionalKeyword, HasDefault, Default, DefaultEnumValue, ContainingOneof, IsSynthetic, ContainingMessage, Message, Enum, MapKey, MapValue, IsClosed, IsMapEntry, IsPlaceholder, RequiredNumbers, ReservedNames, ReservedRanges, ExtensionRanges, method types and streaming flags, Syntax, Imports; non-trivial = accepted workspace using a feature, optional, packed, default, map, group or oneof deviation", maxDev)
	forEachWS(h, maxDev, func(idx int64, ws *model.WS, ndev int) {
		h.Eval(1)
		h.State(1)
		desc := wsDesc(ws)
		fail := func(sig, format string, args ...any) {
			h.Violate(sig, hx.CaseID(idx), desc+": "+fmt.Sprintf(format, args...), map[string]any{"workspace": ws.String()})
		}
		res := compile(ws.Sources(), protocompile.SourceInfoNone, ws.Names()...)
		if res.err != nil {
			h.Count("rejected", 1)
			return
		}
		h.Trace(1)
		notes := strings.Join(ws.Notes, " ")
		if strings.Contains(notes, "features") || strings.Contains(notes, "optional") || strings.Contains(notes, "packed") || strings.Contains(notes, "default") || strings.Contains(notes, "map") || strings.Contains(notes, "group") || strings.Contains(notes, "oneof") {
			h.NonTrivial++
		}
		reg := &protoregistry.Files{}
		// register in dependency order: repeatedly take files whose imports are all registered
		pending := append([]protoreflect.FileDescriptor(nil), filesOf(res)...)
		all := map[string]protoreflect.FileDescriptor{}
		var collect func(f protoreflect.FileDescriptor)
		collect = func(f protoreflect.FileDescriptor) {
			if _, ok := all[f.Path()]; ok {
				return
			}
			all[f.Path()] = f
			for i := 0; i < f.Imports().Len(); i++ {
				collect(f.Imports().Get(i).FileDescriptor)
			}
		}
		for _, f := range pending {
			collect(f)
		}
		done := map[string]protoreflect.FileDescriptor{}
		for len(done) < len(all) {
			progress := false
			for path, f := range all {
				if _, ok := done[path]; ok {
					continue
				}
				ready := true
				for i := 0; i < f.Imports().Len(); i++ {
					if _, ok := done[f.Imports().Get(i).Path()]; !ok {
						ready = false
					}
				}
				if !ready {
					continue
				}
				rt, err := protodesc.NewFile(fdProto(f), reg)
				if err != nil {
					if strings.HasPrefix(path, "google/protobuf/") {
						h.Infra = append(h.Infra, "C04: runtime rejects a standard file: "+err.Error())
						return
					}
					sig := "runtime-rejects:" + errClass(err.Error())
					if strings.Contains(err.Error(), "using proto3 semantics may only depend on open enums") {
						sig = "runtime-rejects:proto3-field-of-closed-enum"
					}
					fail(sig, "protodesc.NewFile rejects the descriptor of %s: %v", path, err)
					return
				}
				if err := reg.RegisterFile(rt); err != nil {
					fail("runtime-register:"+errClass(err.Error()), "registering %s: %v", path, err)
					return
				}
				done[path] = rt
				progress = true
			}
			if !progress {
				h.Infra = append(h.Infra, "C04: import cycle among compiled files")
				return
			}
		}
		for path, f := range all {
			if strings.HasPrefix(path, "google/protobuf/") {
				continue
			}
			c := &cmp{h: h}
			c.file(f, done[path])
			if c.diff != "" {
				fail("view-differs:"+c.attr, "%s: %s", path, c.diff)
				return
			}
		}
		if h.WantSample() && ndev == 2 && strings.Contains(notes, "features") {
			h.Sample(map[string]any{"case": hx.CaseID(idx), "workspace": desc})
		}
	})
}

func filesOf(res *compiled) []protoreflect.FileDescriptor {
	var out []protoreflect.FileDescriptor
	for _, f := range res.files {
		out = append(out, f)
	}
	return out
}

type cmp struct {
	h    *hx.H
	diff string
	attr string
}

func (c *cmp) eq(where, attr string, a, b any) {
	c.h.Trans(1)
	if c.diff == "" && fmt.Sprint(a) != fmt.Sprint(b) {
		c.diff = fmt.Sprintf("%s: %s is %v in the compiler's descriptor and %v in the Go runtime's", where, attr, a, b)
		c.attr = attr
	}
}

func name(d protoreflect.Descriptor) any {
	if d == nil {
		return "<nil>"
	}
	return d.FullName()
}

func (c *cmp) file(a, b protoreflect.FileDescriptor) {
	w := a.Path()
	c.eq(w, "Package", a.Package(), b.Package())
	c.eq(w, "Syntax", a.Syntax(), b.Syntax())
	c.eq(w, "Imports.Len", a.Imports().Len(), b.Imports().Len())
	for i := 0; i < a.Imports().Len() && i < b.Imports().Len(); i++ {
		x, y := a.Imports().Get(i), b.Imports().Get(i)
		c.eq(w, "Import.Path", x.Path(), y.Path())
		c.eq(w, "Import.IsPublic", x.IsPublic, y.IsPublic)
	}
	c.messages(w, a.Messages(), b.Messages())
	c.enums(w, a.Enums(), b.Enums())
	c.fields(w, "Extensions", a.Extensions(), b.Extensions())
	c.eq(w, "Services.Len", a.Services().Len(), b.Services().Len())
	for i := 0; i < a.Services().Len() && i < b.Services().Len(); i++ {
		x, y := a.Services().Get(i), b.Services().Get(i)
		c.eq(w, "Service.FullName", x.FullName(), y.FullName())
		c.eq(string(x.FullName()), "Methods.Len", x.Methods().Len(), y.Methods().Len())
		for j := 0; j < x.Methods().Len() && j < y.Methods().Len(); j++ {
			m, n := x.Methods().Get(j), y.Methods().Get(j)
			mw := string(m.FullName())
			c.eq(mw, "Method.FullName", m.FullName(), n.FullName())
			c.eq(mw, "Method.Input", name(m.Input()), name(n.Input()))
			c.eq(mw, "Method.Output", name(m.Output()), name(n.Output()))
			c.eq(mw, "IsStreamingClient", m.IsStreamingClient(), n.IsStreamingClient())
			c.eq(mw, "IsStreamingServer", m.IsStreamingServer(), n.IsStreamingServer())
		}
	}
}

func (c *cmp) messages(w string, a, b protoreflect.MessageDescriptors) {
	c.eq(w, "Messages.Len", a.Len(), b.Len())
	for i := 0; i < a.Len() && i < b.Len(); i++ {
		x, y := a.Get(i), b.Get(i)
		mw := string(x.FullName())
		c.eq(mw, "Message.FullName", x.FullName(), y.FullName())
		c.eq(mw, "Message.Index", x.Index(), y.Index())
		c.eq(mw, "IsMapEntry", x.IsMapEntry(), y.IsMapEntry())
		c.eq(mw, "IsPlaceholder", x.IsPlaceholder(), y.IsPlaceholder())
		c.eq(mw, "Message.Syntax", x.Syntax(), y.Syntax())
		c.eq(mw, "RequiredNumbers", numbers(x.RequiredNumbers()), numbers(y.RequiredNumbers()))
		c.eq(mw, "ReservedNames", namesOf(x.ReservedNames()), namesOf(y.ReservedNames()))
		c.eq(mw, "ReservedRanges", ranges(x.ReservedRanges()), ranges(y.ReservedRanges()))
		c.eq(mw, "ExtensionRanges", ranges(x.ExtensionRanges()), ranges(y.ExtensionRanges()))
		for _, n := range []protoreflect.FieldNumber{1, 2, 3, 4, 5, 9, 100, 150, 199, 200, 19000, 536870911} {
			c.eq(mw, "ReservedRanges.Has", x.ReservedRanges().Has(n), y.ReservedRanges().Has(n))
			c.eq(mw, "ExtensionRanges.Has", x.ExtensionRanges().Has(n), y.ExtensionRanges().Has(n))
			c.eq(mw, "Fields.ByNumber", name(x.Fields().ByNumber(n)), name(y.Fields().ByNumber(n)))
		}
		c.fields(mw, "Fields", x.Fields(), y.Fields())
		c.fields(mw, "Extensions", x.Extensions(), y.Extensions())
		c.eq(mw, "Oneofs.Len", x.Oneofs().Len(), y.Oneofs().Len())
		for j := 0; j < x.Oneofs().Len() && j < y.Oneofs().Len(); j++ {
			o, p := x.Oneofs().Get(j), y.Oneofs().Get(j)
			ow := string(o.FullName())
			c.eq(ow, "Oneof.FullName", o.FullName(), p.FullName())
			c.eq(ow, "Oneof.IsSynthetic", o.IsSynthetic(), p.IsSynthetic())
			c.eq(ow, "Oneof.Fields.Len", o.Fields().Len(), p.Fields().Len())
			for k := 0; k < o.Fields().Len() && k < p.Fields().Len(); k++ {
				c.eq(ow, "Oneof.Field", o.Fields().Get(k).FullName(), p.Fields().Get(k).FullName())
			}
		}
		c.messages(mw, x.Messages(), y.Messages())
		c.enums(mw, x.Enums(), y.Enums())
	}
}

func numbers(n protoreflect.FieldNumbers) string {
	var out []string
	for i := 0; i < n.Len(); i++ {
		out = append(out, fmt.Sprint(n.Get(i)))
	}
	return strings.Join(out, ",")
}

func namesOf(n protoreflect.Names) string {
	var out []string
	for i := 0; i < n.Len(); i++ {
		out = append(out, string(n.Get(i)))
	}
	return strings.Join(out, ",")
}

func ranges(r protoreflect.FieldRanges) string {
	var out []string
	for i := 0; i < r.Len(); i++ {
		out = append(out, fmt.Sprint(r.Get(i)))
	}
	return strings.Join(out, ",")
}

func (c *cmp) enums(w string, a, b protoreflect.EnumDescriptors) {
	c.eq(w, "Enums.Len", a.Len(), b.Len())
	for i := 0; i < a.Len() && i < b.Len(); i++ {
		x, y := a.Get(i), b.Get(i)
		ew := string(x.FullName())
		c.eq(ew, "Enum.FullName", x.FullName(), y.FullName())
		c.eq(ew, "IsClosed", x.IsClosed(), y.IsClosed())
		c.eq(ew, "Enum.ReservedNames", namesOf(x.ReservedNames()), namesOf(y.ReservedNames()))
		var ra, rb []string
		for j := 0; j < x.ReservedRanges().Len(); j++ {
			ra = append(ra, fmt.Sprint(x.ReservedRanges().Get(j)))
		}
		for j := 0; j < y.ReservedRanges().Len(); j++ {
			rb = append(rb, fmt.Sprint(y.ReservedRanges().Get(j)))
		}
		c.eq(ew, "Enum.ReservedRanges", ra, rb)
		c.eq(ew, "Values.Len", x.Values().Len(), y.Values().Len())
		for j := 0; j < x.Values().Len() && j < y.Values().Len(); j++ {
			v, u := x.Values().Get(j), y.Values().Get(j)
			c.eq(ew, "Value.FullName", v.FullName(), u.FullName())
			c.eq(ew, "Value.Number", v.Number(), u.Number())
			c.eq(ew, "Values.ByNumber", name(x.Values().ByNumber(v.Number())), name(y.Values().ByNumber(u.Number())))
		}
	}
}

func (c *cmp) fields(w, what string, a, b interface {
	Len() int
	Get(int) protoreflect.FieldDescriptor
}) {
	c.eq(w, what+".Len", a.Len(), b.Len())
	for i := 0; i < a.Len() && i < b.Len(); i++ {
		x, y := a.Get(i), b.Get(i)
		fw := string(x.FullName())
		c.eq(fw, "Field.FullName", x.FullName(), y.FullName())
		c.eq(fw, "Index", x.Index(), y.Index())
		c.eq(fw, "Number", x.Number(), y.Number())
		c.eq(fw, "Kind", x.Kind(), y.Kind())
		c.eq(fw, "Cardinality", x.Cardinality(), y.Cardinality())
		c.eq(fw, "HasPresence", x.HasPresence(), y.HasPresence())
		c.eq(fw, "IsPacked", x.IsPacked(), y.IsPacked())
		c.eq(fw, "IsList", x.IsList(), y.IsList())
		c.eq(fw, "IsMap", x.IsMap(), y.IsMap())
		c.eq(fw, "IsExtension", x.IsExtension(), y.IsExtension())
		c.eq(fw, "IsWeak", x.IsWeak(), y.IsWeak())
		c.eq(fw, "JSONName", x.JSONName(), y.JSONName())
		c.eq(fw, "HasJSONName", x.HasJSONName(), y.HasJSONName())
		c.eq(fw, "TextName", x.TextName(), y.TextName())
		c.eq(fw, "HasOptionalKeyword", x.HasOptionalKeyword(), y.HasOptionalKeyword())
		c.eq(fw, "HasDefault", x.HasDefault(), y.HasDefault())
		c.eq(fw, "Default.IsValid", x.Default().IsValid(), y.Default().IsValid())
		if x.Default().IsValid() && y.Default().IsValid() {
			if x.Kind() == protoreflect.BytesKind {
				c.eq(fw, "Default", x.Default().Bytes(), y.Default().Bytes())
			} else {
				c.eq(fw, "Default", x.Default().Interface(), y.Default().Interface())
			}
		}
		c.eq(fw, "DefaultEnumValue", name(x.DefaultEnumValue()), name(y.DefaultEnumValue()))
		c.eq(fw, "ContainingOneof", name(x.ContainingOneof()), name(y.ContainingOneof()))
		c.eq(fw, "ContainingMessage", name(x.ContainingMessage()), name(y.ContainingMessage()))
		c.eq(fw, "Message", name(x.Message()), name(y.Message()))
		c.eq(fw, "Enum", name(x.Enum()), name(y.Enum()))
		if x.IsMap() && y.IsMap() {
			c.eq(fw, "MapKey.Kind", x.MapKey().Kind(), y.MapKey().Kind())
			c.eq(fw, "MapValue.Kind", x.MapValue().Kind(), y.MapValue().Kind())
			c.eq(fw, "MapValue.Message", name(x.MapValue().Message()), name(y.MapValue().Message()))
		}
	}
}
