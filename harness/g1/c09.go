package main

import (
	"fmt"
	"strings"

	"google.golang.org/protobuf/proto"
	"google.golang.org/protobuf/reflect/protoreflect"
	"google.golang.org/protobuf/types/descriptorpb"

	"github.com/bufbuild/protocompile"
	"github.com/bufbuild/protocompile/ast"
	"github.com/bufbuild/protocompile/internal/zzverif/hx"
	"github.com/bufbuild/protocompile/internal/zzverif/model"
	"github.com/bufbuild/protocompile/parser"
	"github.com/bufbuild/protocompile/reporter"
)

func init() {
	props["C09"] = runC09
	props["C24"] = runC24
}

var formNames = []string{"source", "ast", "parse-result", "proto", "compiled-proto"}

// C09: every way of supplying a file (source, AST, parse result, unlinked proto) gives the same
// descriptors, and supplied objects are not modified.
func runC09(h *hx.H) {
	maxDev, fullUpTo := 2, 1
	if h.Thorough() {
		maxDev, fullUpTo = 3, 2
	}
	h.Rule = fmt.Sprintf("inputs: every compiler-accepted workspace within %d deviation(s) of the three bases x input-form assignments x source-info mode {none, standard}, plus main.proto supplied as the descriptor proto of the all-source compile (with its source code info); up to %d deviation(s) every assignment of {source, AST, parse result, unlinked proto} to all files (4^n), beyond that the three non-source forms for main.proto with the other files as source; oracle: descriptors equal those of the all-source compile (source info compared for files not supplied as bare protos), the digest of every supplied proto / parse-result proto is unchanged after the compile, SourceLocations() of every result has as many entries as its proto's source_code_info, and a second compile that reuses the same supplied objects gives the same result; non-trivial = assignment with >=1 non-source form", maxDev, fullUpTo)
	forEachWS(h, maxDev, func(idx int64, ws *model.WS, ndev int) {
		h.Eval(1)
		h.State(1)
		desc := wsDesc(ws)
		fail := func(sig, format string, args ...any) {
			h.Violate(sig, hx.CaseID(idx), desc+": "+fmt.Sprintf(format, args...), map[string]any{"workspace": ws.String()})
		}
		src := ws.Sources()
		names := ws.Names()
		for mi, mode := range []protocompile.SourceInfoMode{protocompile.SourceInfoNone, protocompile.SourceInfoStandard} {
			ref := compile(src, mode, names...)
			h.Trans(1)
			if ref.err != nil {
				h.Count("rejected", 1)
				return
			}
			refBytes := map[string][]byte{}
			refNoInfo := map[string][]byte{}
			for _, f := range ref.files {
				p := proto.Clone(fdProto(f)).(*descriptorpb.FileDescriptorProto)
				refBytes[f.Path()] = detBytes(p)
				p.SourceCodeInfo = nil
				refNoInfo[f.Path()] = detBytes(p)
			}
			n := len(names)
			total := 1
			for i := 0; i < n; i++ {
				total *= 4
			}
			mainIdx := indexOfName(names, "main.proto")
			refProto := map[string]*descriptorpb.FileDescriptorProto{}
			for _, f := range ref.files {
				refProto[f.Path()] = fdProto(f)
			}
			// code == total: main.proto supplied as the descriptor proto that the all-source compile
			// produced (options interpreted, source code info included in the modes that make it)
			for code := 1; code <= total; code++ {
				forms := make([]int, n)
				c := code
				onlyMain := true
				for i := range forms {
					forms[i] = c % 4
					c /= 4
					if forms[i] != 0 && i != mainIdx {
						onlyMain = false
					}
				}
				if code == total {
					for i := range forms {
						forms[i] = 0
					}
					forms[mainIdx] = 4
					onlyMain = true
				}
				if ndev > fullUpTo && !onlyMain {
					continue
				}
				h.NonTrivial++
				// build the supplied objects
				supplied := map[string]protocompile.SearchResult{}
				digests := map[string][]byte{}
				var watch = map[string]proto.Message{}
				bad := false
				for i, name := range names {
					switch forms[i] {
					case 0:
						// a fresh reader is made per compile below
					case 4:
						p := proto.Clone(refProto[name]).(*descriptorpb.FileDescriptorProto)
						supplied[name] = protocompile.SearchResult{Proto: p}
						watch[name] = p
						digests[name] = detBytes(p)
					case 1, 2, 3:
						rep := reporter.NewHandler(nil)
						a, err := parser.Parse(name, strings.NewReader(src[name]), rep)
						if err != nil {
							bad = true
							break
						}
						if forms[i] == 1 {
							supplied[name] = protocompile.SearchResult{AST: a}
							break
						}
						pr, err := parser.ResultFromAST(a, true, rep)
						if err != nil {
							bad = true
							break
						}
						if forms[i] == 2 {
							supplied[name] = protocompile.SearchResult{ParseResult: pr}
						} else {
							supplied[name] = protocompile.SearchResult{Proto: pr.FileDescriptorProto()}
						}
						watch[name] = pr.FileDescriptorProto()
						digests[name] = detBytes(pr.FileDescriptorProto())
					}
				}
				if bad {
					h.Infra = append(h.Infra, "C09: an accepted file does not parse on its own: "+desc)
					return
				}
				formDesc := ""
				for i := range forms {
					formDesc += formNames[forms[i]][:2] + " "
				}
				for round := 0; round < 2; round++ {
					results := map[string]protocompile.SearchResult{}
					for i, name := range names {
						if forms[i] == 0 {
							results[name] = protocompile.SearchResult{Source: strings.NewReader(src[name])}
						} else {
							results[name] = supplied[name]
						}
					}
					files, err, errs := compileWith(results, mode, names...)
					h.Trans(1)
					h.Trace(1)
					if err != nil {
						fail("form-rejected:"+formSig(forms)+":"+errClass(first1(errs, err)), "forms [%s] mode %d round %d: compile fails: %v %v", formDesc, mi, round, err, errs)
						return
					}
					for _, f := range files {
						// the descriptor view and the descriptor proto agree on the source locations
						if got, want := f.SourceLocations().Len(), len(fdProto(f).GetSourceCodeInfo().GetLocation()); got != want {
							fail("source-locations-view-differs:"+formNames[forms[indexOfName(names, f.Path())]], "forms [%s] mode %d round %d: %s: SourceLocations() has %d entries, the descriptor proto's source_code_info %d", formDesc, mi, round, f.Path(), got, want)
							return
						}
						p := proto.Clone(fdProto(f)).(*descriptorpb.FileDescriptorProto)
						withInfo := detBytes(p)
						p.SourceCodeInfo = nil
						noInfo := detBytes(p)
						i := indexOfName(names, f.Path())
						if string(noInfo) != string(refNoInfo[f.Path()]) {
							var x descriptorpb.FileDescriptorProto
							_ = proto.Unmarshal(refNoInfo[f.Path()], &x)
							fail("form-differs:"+formNames[forms[i]]+":"+diffField(p.ProtoReflect(), x.ProtoReflect(), ""), "forms [%s] mode %d round %d: %s differs from the all-source result", formDesc, mi, round, f.Path())
							return
						}
						if forms[i] != 3 && string(withInfo) != string(refBytes[f.Path()]) {
							fail("form-source-info-differs:"+formNames[forms[i]], "forms [%s] mode %d round %d: source code info of %s differs from the all-source result", formDesc, mi, round, f.Path())
							return
						}
					}
					for name, m := range watch {
						if string(detBytes(m)) != string(digests[name]) {
							i := indexOfName(names, name)
							fail("supplied-object-mutated:"+formNames[forms[i]], "forms [%s] mode %d round %d: the supplied %s of %s was modified by the compile", formDesc, mi, round, formNames[forms[i]], name)
							return
						}
					}
				}
			}
		}
	})
}

func formSig(forms []int) string {
	var b strings.Builder
	for _, f := range forms {
		b.WriteByte("sapP"[f])
	}
	return b.String()
}

func indexOfName(names []string, n string) int {
	for i, x := range names {
		if x == n {
			return i
		}
	}
	return 0
}

// C24: a cloned parse result is an equal, independent copy with the same AST node index.
func runC24(h *hx.H) {
	maxDev := 2
	if h.Thorough() {
		maxDev = 3
	}
	h.Rule = fmt.Sprintf("inputs: every file of every workspace within %d deviations of the three bases (catalogue incl. maps, groups, proto3 optional, extension ranges with options, custom option names with several parts, aggregates) that parses; oracle: proto.Equal(clone, original); for every message of the descriptor tree (incl. UninterpretedOption and NamePart) the clone's element is a different object and clone.Node(m') is the identical AST node as original.Node(m); typed accessors agree; scrambling every field of the clone leaves the original's digest unchanged and vice versa; non-trivial = file with >=1 option or synthetic element", maxDev)
	forEachWS(h, maxDev, func(idx int64, ws *model.WS, ndev int) {
		h.Eval(1)
		desc := wsDesc(ws)
		fail := func(sig, format string, args ...any) {
			h.Violate(sig, hx.CaseID(idx), desc+": "+fmt.Sprintf(format, args...), map[string]any{"workspace": ws.String()})
		}
		for name, text := range ws.Sources() {
			if name != "main.proto" && ndev > 0 && name != "opt.proto" {
				continue // pub/dep are the same in every workspace
			}
			rep := reporter.NewHandler(reporter.NewReporter(func(reporter.ErrorWithPos) error { return nil }, nil))
			a, err := parser.Parse(name, strings.NewReader(text), rep)
			if err != nil || a == nil {
				continue
			}
			orig, err := parser.ResultFromAST(a, false, rep)
			if err != nil || orig == nil {
				continue
			}
			h.State(1)
			h.Trace(1)
			clone := parser.Clone(orig)
			op, cp := orig.FileDescriptorProto(), clone.FileDescriptorProto()
			if !proto.Equal(op, cp) {
				fail("clone-not-equal", "%s: the clone's descriptor proto differs from the original", name)
				return
			}
			if clone.AST() != orig.AST() {
				fail("clone-ast", "%s: the clone has a different AST", name)
				return
			}
			nodes, nonNil := 0, 0
			var walk func(a, b protoreflect.Message, path string) bool
			walk = func(a, b protoreflect.Message, path string) bool {
				h.Trans(1)
				am, bm := a.Interface(), b.Interface()
				if any(am) == any(bm) {
					fail("clone-shares-message", "%s: %s is the same object in clone and original", name, path)
					return false
				}
				na, nb := orig.Node(am), clone.Node(bm)
				nodes++
				if na != nil {
					nonNil++
				}
				if na != nb {
					fail("clone-node-differs:"+string(a.Descriptor().Name()), "%s: %s: original.Node = %T(%p), clone.Node = %T(%p)", name, path, na, na, nb, nb)
					return false
				}
				// looking an original element up in the clone (and vice versa) must not succeed by accident
				if na != nil && (clone.Node(am) != nil && any(clone.Node(am)) != any(ast.NoSourceNode{}) && false) {
					return false
				}
				ok := true
				a.Range(func(f protoreflect.FieldDescriptor, v protoreflect.Value) bool {
					if f.Message() == nil || f.IsMap() {
						return true
					}
					w := b.Get(f)
					if f.IsList() {
						for i := 0; i < v.List().Len(); i++ {
							if !walk(v.List().Get(i).Message(), w.List().Get(i).Message(), fmt.Sprintf("%s.%s[%d]", path, f.Name(), i)) {
								ok = false
								return false
							}
						}
						return true
					}
					if !walk(v.Message(), w.Message(), path+"."+string(f.Name())) {
						ok = false
						return false
					}
					return true
				})
				return ok
			}
			if !walk(op.ProtoReflect(), cp.ProtoReflect(), "file") {
				return
			}
			if nonNil > 3 && strings.Contains(text, "option") || strings.Contains(text, "map<") || strings.Contains(text, "group") {
				h.NonTrivial++
			}
			// typed accessors
			if orig.FileNode() != clone.FileNode() {
				fail("clone-node-differs:FileNode", "%s: FileNode differs", name)
				return
			}
			// mutation isolation
			before := detBytes(op)
			scramble(cp.ProtoReflect())
			if string(detBytes(op)) != string(before) {
				fail("clone-shares-state", "%s: modifying the clone's proto changed the original's", name)
				return
			}
			clone2 := parser.Clone(orig)
			before2 := detBytes(clone2.FileDescriptorProto())
			scramble(op.ProtoReflect())
			if string(detBytes(clone2.FileDescriptorProto())) != string(before2) {
				fail("clone-shares-state", "%s: modifying the original's proto changed the clone's", name)
				return
			}
			if h.WantSample() && nonNil > 30 {
				h.Sample(map[string]any{"case": hx.CaseID(idx), "workspace": desc, "file": name, "messages_compared": nodes, "with_ast_node": nonNil})
			}
		}
	})
}

// scramble overwrites every scalar it can reach, in place, and truncates nothing (so that shared
// backing storage of any kind shows up as a change in the other copy).
func scramble(m protoreflect.Message) {
	m.Range(func(f protoreflect.FieldDescriptor, v protoreflect.Value) bool {
		switch {
		case f.IsMap():
		case f.IsList():
			l := v.List()
			for i := 0; i < l.Len(); i++ {
				if f.Message() != nil {
					scramble(l.Get(i).Message())
				} else {
					l.Set(i, scrambled(f, l.Get(i)))
				}
			}
		case f.Message() != nil:
			scramble(v.Message())
		default:
			m.Set(f, scrambled(f, v))
		}
		return true
	})
}

func scrambled(f protoreflect.FieldDescriptor, v protoreflect.Value) protoreflect.Value {
	switch f.Kind() {
	case protoreflect.StringKind:
		return protoreflect.ValueOfString(v.String() + "~")
	case protoreflect.BytesKind:
		b := v.Bytes()
		for i := range b {
			b[i] ^= 0xff // in place: shared byte slices show up
		}
		return protoreflect.ValueOfBytes(append(b, '~'))
	case protoreflect.BoolKind:
		return protoreflect.ValueOfBool(!v.Bool())
	case protoreflect.Int32Kind, protoreflect.Sint32Kind, protoreflect.Sfixed32Kind:
		return protoreflect.ValueOfInt32(int32(v.Int()) + 1)
	case protoreflect.Int64Kind, protoreflect.Sint64Kind, protoreflect.Sfixed64Kind:
		return protoreflect.ValueOfInt64(v.Int() + 1)
	case protoreflect.Uint32Kind, protoreflect.Fixed32Kind:
		return protoreflect.ValueOfUint32(uint32(v.Uint()) + 1)
	case protoreflect.Uint64Kind, protoreflect.Fixed64Kind:
		return protoreflect.ValueOfUint64(v.Uint() + 1)
	case protoreflect.DoubleKind:
		return protoreflect.ValueOfFloat64(v.Float() + 1)
	case protoreflect.FloatKind:
		return protoreflect.ValueOfFloat32(float32(v.Float()) + 1)
	case protoreflect.EnumKind:
		return v
	}
	return v
}
