package main

import (
	"github.com/bufbuild/protocompile/internal/zzverif/hx"
)

func runC33(h *hx.H) {
	h.Infra = append(h.Infra, "not built yet")
}
