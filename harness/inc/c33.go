package main

import (
	"sort"
	"fmt"
	"strings"

	"github.com/bufbuild/protocompile/experimental/incremental"
	"github.com/bufbuild/protocompile/internal/zzverif/coop"
	"github.com/bufbuild/protocompile/internal/zzverif/hx"
	"github.com/bufbuild/protocompile/internal/zzverif/tape"
	"github.com/bufbuild/protocompile/internal/zzverif/vsemaphore"
)

// history operations
type hop struct {
	kind   byte // 'R' run, 'P' two concurrent runs, 'E' bump+evict, 'Q' run concurrent with bump+evict
	s1, s2 []int
	node   int
}

func (o hop) String() string {
	switch o.kind {
	case 'R':
		return fmt.Sprintf("Run%v", o.s1)
	case 'P':
		return fmt.Sprintf("Run%v||Run%v", o.s1, o.s2)
	case 'Q':
		return fmt.Sprintf("Run%v||Evict(%d)", o.s1, o.node)
	default:
		return fmt.Sprintf("Evict(%d)", o.node)
	}
}

func histString(hs []hop) string {
	parts := make([]string, len(hs))
	for i, o := range hs {
		parts[i] = o.String()
	}
	return strings.Join(parts, ";")
}

func c33Alphabet(n int) []hop {
	var a []hop
	roots := [][]int{{0}}
	if n >= 2 {
		roots = append(roots, []int{1}, []int{0, 1})
	}
	if n >= 3 {
		roots = append(roots, []int{n - 1})
	}
	for _, r := range roots {
		a = append(a, hop{kind: 'R', s1: r})
	}
	if n >= 2 {
		a = append(a, hop{kind: 'P', s1: []int{0}, s2: []int{0}}, hop{kind: 'P', s1: []int{0}, s2: []int{1}}, hop{kind: 'P', s1: []int{0, 1}, s2: []int{1}})
	}
	for i := 0; i < n; i++ {
		a = append(a, hop{kind: 'E', node: i})
	}
	return a
}

// concurrent operations explored with interleavings
func c33Concurrent(n int) []hop {
	var a []hop
	a = append(a, hop{kind: 'P', s1: []int{0}, s2: []int{0}}, hop{kind: 'P', s1: []int{0}, s2: []int{1}}, hop{kind: 'P', s1: []int{0, 1}, s2: []int{1}})
	for i := 0; i < n; i++ {
		a = append(a, hop{kind: 'Q', s1: []int{0}, node: i})
		if i > 0 {
			a = append(a, hop{kind: 'Q', s1: []int{1}, node: i})
		}
	}
	return a
}

func runC33(h *hx.H) {
	h.Rule = "every DAG on <=3 (quick) / <=4 (thorough) nodes (edges i->j, i<j) x child order x resolve shape; (a) every history of <=3 operations over {Run(roots), Run||Run, bump+Evict(i)} on the default schedule at parallelism 1..2; (b) every history of <=2 operations that contains a concurrent pair or an eviction, all schedules within the preemption bound at parallelism 1..3; oracle: reference evaluator, reference cache model (exact execution multiset per operation), Changed flags, diagnostics count; non-trivial = execution with >=1 deviation reaching a new canonical state, or a distinct sequential history"
	maxN := 3
	if h.Thorough() {
		maxN = 4
	}
	pb := 1
	if h.Thorough() {
		pb = 2
	}
	for n := 2; n <= maxN; n++ {
		nb := n * (n - 1) / 2
		for m := 0; m < 1<<nb; m++ {
			for variant := 0; variant < 4; variant++ {
				desc, perChild := variant&1 != 0, variant&2 != 0
				mk := func() *world {
					w := &world{n: n, desc: desc, perChild: perChild, changed: map[[2]int][]bool{}}
					b := 0
					for i := 0; i < n; i++ {
						for j := i + 1; j < n; j++ {
							w.adj[i][j] = m&(1<<b) != 0
							b++
						}
						w.version[i] = 1 << (2 * i)
					}
					return w
				}
				w0 := mk()
				edges := 0
				maxKids := 0
				for i := 0; i < n; i++ {
					k := len(node{w0, i}.children())
					edges += k
					if k > maxKids {
						maxKids = k
					}
				}
				if variant != 0 && maxKids < 2 {
					continue // order / shape only matter with >=2 children
				}
				if n == 4 && variant == 3 {
					continue
				}
				alpha := c33Alphabet(n)
				// (a) sequential histories on the default schedule
				maxLen := 3
				var hist []hop
				var rec func()
				rec = func() {
					if len(hist) > 0 {
						for par := 1; par <= 2; par++ {
							hh := append([]hop(nil), hist...)
							name := fmt.Sprintf("C33/seq/n%d/%s/par%d/%s", n, w0.String(), par, histString(hh))
							if h.Replay != "" && !h.Scenario(name) {
								continue
							}
							h.Explore(hx.Scn{Name: name, Bounds: tape.B(0, 0, 0, 0), Body: c33Body(mk, hh, par)})
						}
					}
					if len(hist) == maxLen || h.TooMany() || h.Expired() {
						return
					}
					for _, o := range alpha {
						hist = append(hist, o)
						rec()
						hist = hist[:len(hist)-1]
					}
				}
				if n <= 3 || variant == 0 {
					rec()
				}
				// (b) interleavings: [warm-up run] ; concurrent operation ; [checking run]
				if edges == 0 {
					continue
				}
				var runsOnly []hop
				for _, o := range alpha {
					if o.kind == 'R' {
						runsOnly = append(runsOnly, o)
					}
				}
				var hists [][]hop
				for _, r := range runsOnly {
					if maxKids >= 2 {
						hists = append(hists, []hop{r}) // a single run already forks
					}
				}
				for _, c := range c33Concurrent(n) {
					for _, pre := range append([]hop{{}}, runsOnly...) {
						for _, post := range append([]hop{{}}, runsOnly...) {
							var hh []hop
							if pre.kind != 0 {
								hh = append(hh, pre)
							}
							hh = append(hh, c)
							if post.kind != 0 {
								hh = append(hh, post)
							}
							if c.kind == 'Q' && post.kind == 0 {
								continue // the effect of the eviction shows in the next run
							}
							if n == 4 && (pre.kind != 0 && post.kind != 0) {
								continue
							}
							hists = append(hists, hh)
						}
					}
				}
				for _, hh := range hists {
					for par := 1; par <= 3; par++ {
						if h.Expired() || h.TooMany() {
							return
						}
						if !h.Thorough() && par == 3 && len(hh) == 3 {
							continue
						}
						name := fmt.Sprintf("C33/il/n%d/%s/par%d/%s", n, w0.String(), par, histString(hh))
						h.Explore(hx.Scn{Name: name, Bounds: tape.B(pb, 0, 0, 1), Prune: true, Body: c33Body(mk, hh, par)})
					}
				}
			}
		}
	}
}

func c33Body(mk func() *world, hist []hop, par int) func(r *tape.Run) {
	return func(r *tape.Run) {
		w := mk()
		vsemaphore.VerifReset()
		ex := incremental.New(incremental.WithParallelism(int64(par)))
		sema := vsemaphore.VerifNth(1)
		cached := [maxN]bool{}
		runIdx := 0
		fail := func(sig, format string, args ...any) {
			r.Fail(sig, "graph %s parallelism %d history %s: %s", w, par, histString(hist), fmt.Sprintf(format, args...))
		}
		checkRun := func(rr *runResult) bool {
			if rr.panicked != nil || rr.err != nil {
				fail("run-failed", "Run%v failed: %v %s", rr.roots, rr.panicked, short(rr.err))
				return false
			}
			for i, res := range rr.res {
				if res.Fatal != nil {
					fail("fatal", "root %d fatal: %s", rr.roots[i], short(res.Fatal))
					return false
				}
				if want := w.eval(rr.roots[i]); res.Value != want {
					fail("stale-value", "Run%v: root %d = %d, a fresh computation gives %d", rr.roots, rr.roots[i], res.Value, want)
					return false
				}
			}
			cl := w.closure(rr.roots)
			want := 0
			for i := 0; i < w.n; i++ {
				if cl[i] {
					want++
				}
			}
			if len(rr.diagText) != want {
				fail("diagnostics", "Run%v reported %d diagnostics %v, want one per reachable query (%d)", rr.roots, len(rr.diagText), rr.diagText, want)
				return false
			}
			return true
		}
		s := hx.RunCoop(r, 0, func() {
			for _, op := range hist {
				if r.Failure != "" {
					return
				}
				before := [maxN]int{}
				for i := range before {
					before[i] = len(w.execs[i])
				}
				var runs []*runResult
				switch op.kind {
				case 'R':
					runIdx++
					runs = append(runs, doRun(w, ex, runIdx, op.s1))
				case 'P':
					a, b := runIdx+1, runIdx+2
					runIdx += 2
					res := make([]*runResult, 2)
					pending := 2
					for k, cfg := range []struct {
						idx   int
						roots []int
					}{{a, op.s1}, {b, op.s2}} {
						coop.Go(func() {
							res[k] = doRun(w, ex, cfg.idx, cfg.roots)
							pending--
						})
					}
					coop.Point("join", func() bool { return pending == 0 })
					runs = append(runs, res...)
				case 'Q':
					// a Run concurrent with bump+Evict must behave like one of the two orders
					runIdx++
					idx := runIdx
					var rr *runResult
					pending := 2
					cachedBefore := cached
					verBefore := w.version
					coop.Go(func() {
						rr = doRun(w, ex, idx, op.s1)
						pending--
					})
					coop.Go(func() {
						ex.EvictWithCleanup([]any{nodeKey{op.node}}, func() { w.version[op.node] += 100 })
						pending--
					})
					coop.Point("join", func() bool { return pending == 0 })
					if rr == nil || rr.panicked != nil || rr.err != nil || len(rr.res) != len(op.s1) {
						fail("run-failed", "%s: the Run did not return results", op)
						return
					}
					verAfter := w.version
					cl := w.closure(op.s1)
					ok := false
					for order := 0; order < 2 && !ok; order++ {
						c := cachedBefore
						evict := func() {
							if c[op.node] {
								for j := 0; j < w.n; j++ {
									if w.reaches(j, op.node) {
										c[j] = false
									}
								}
							}
						}
						if order == 0 { // Evict ; Run
							evict()
							w.version = verAfter
						} else { // Run ; Evict
							w.version = verBefore
						}
						match := true
						for i := 0; i < w.n; i++ {
							want := 0
							if cl[i] && !c[i] {
								want = 1
							}
							if len(w.execs[i])-before[i] != want {
								match = false
							}
							if cl[i] {
								c[i] = true
							}
						}
						for k, res := range rr.res {
							if res.Fatal != nil || res.Value != w.eval(op.s1[k]) {
								match = false
							}
						}
						if order == 1 {
							evict()
						}
						if match {
							ok = true
							cached = c
						}
					}
					w.version = verAfter
					if !ok {
						var ex2 []int
						for i := 0; i < w.n; i++ {
							ex2 = append(ex2, len(w.execs[i])-before[i])
						}
						fail("run-evict-not-serializable", "%s: executions %v and values %v match neither Evict;Run nor Run;Evict", op, ex2, func() []int {
							var v []int
							for _, r := range rr.res {
								v = append(v, r.Value)
							}
							return v
						}())
						return
					}
					continue
				case 'E':
					w.version[op.node] += 100
					ex.Evict(nodeKey{op.node})
					if cached[op.node] {
						for j := 0; j < w.n; j++ {
							if w.reaches(j, op.node) {
								cached[j] = false
							}
						}
					}
					continue
				}
				// reference cache model: exactly the needed, uncached queries execute, once each
				var needed [maxN]bool
				for _, rr := range runs {
					if rr == nil {
						fail("run-missing", "a Run did not return")
						return
					}
					cl := w.closure(rr.roots)
					for i := range cl {
						needed[i] = needed[i] || cl[i]
					}
				}
				for i := 0; i < w.n; i++ {
					got := len(w.execs[i]) - before[i]
					want := 0
					if needed[i] && !cached[i] {
						want = 1
					}
					if got != want {
						sig := "executed-again"
						if got < want {
							sig = "not-recomputed"
						}
						fail(sig, "%s: query %d executed %d times, the cache model says %d", op, i, got, want)
						return
					}
					if needed[i] {
						cached[i] = true
					}
				}
				for _, rr := range runs {
					if !checkRun(rr) {
						return
					}
				}
			}
		})
		r.Outcome = fmt.Sprintf("execs=%v", func() []int {
			o := make([]int, w.n)
			for i := range o {
				o[i] = len(w.execs[i])
			}
			return o
		}())
		if !checkSched(r, s) {
			return
		}
		if r.Failure != "" {
			return
		}
		if sema != nil && sema.VerifHeld() != 0 {
			fail("permit-leak", "%d permits still held", sema.VerifHeld())
			return
		}
		// Changed: every observation of (run, query) agrees, and equals "executed during that run"
		keysChanged := make([][2]int, 0, len(w.changed))
		for key := range w.changed {
			keysChanged = append(keysChanged, key)
		}
		sort.Slice(keysChanged, func(a, b int) bool {
			if keysChanged[a][0] != keysChanged[b][0] {
				return keysChanged[a][0] < keysChanged[b][0]
			}
			return keysChanged[a][1] < keysChanged[b][1]
		})
		for _, key := range keysChanged {
			flags := w.changed[key]
			run, q := key[0], key[1]
			exec := false
			for _, e := range w.execs[q] {
				if e == run {
					exec = true
				}
			}
			for _, f := range flags {
				if f != exec {
					fail("changed-flag", "run %d saw Changed=%v for query %d, which %s computed during that run (all observations: %v)", run, f, q, map[bool]string{true: "was", false: "was not"}[exec], flags)
					return
				}
			}
		}
	}
}
