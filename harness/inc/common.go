// Harness for the incremental executor (C33, C34): the repository's own
// experimental/incremental/{executor,task}.go and a copy of x/sync/semaphore
// run under the coop scheduler with synthetic graph queries.
package main

import (
	"context"
	"errors"
	"fmt"
	"os"
	"sort"
	"strings"

	"github.com/bufbuild/protocompile/experimental/incremental"
	"github.com/bufbuild/protocompile/internal/zzverif/coop"
	"github.com/bufbuild/protocompile/internal/zzverif/hx"
	"github.com/bufbuild/protocompile/internal/zzverif/tape"
	"github.com/bufbuild/protocompile/internal/zzverif/vsemaphore"
)

const maxN = 4

// world is the harness-owned state the synthetic queries read.
type world struct {
	n        int
	adj      [maxN][maxN]bool
	desc     bool // children listed in descending order
	perChild bool // one Resolve per child instead of one Resolve with all children
	panics   [maxN]bool
	version  [maxN]int
	// observations
	execs   [maxN][]int           // run indices in which node i executed
	changed map[[2]int][]bool     // (run, node) -> Changed flags seen by every Resolve / root result
	diags   int
}

type runKeyT struct{}

type nodeKey struct{ I int }

type node struct {
	w *world
	i int
}

type panicVal struct{ I int }

func (q node) Key() any { return nodeKey{q.i} }

func (q node) children() []int {
	var c []int
	for j := 0; j < q.w.n; j++ {
		if q.w.adj[q.i][j] {
			c = append(c, j)
		}
	}
	if q.w.desc {
		sort.Sort(sort.Reverse(sort.IntSlice(c)))
	}
	return c
}

func (q node) Execute(t *incremental.Task) (int, error) {
	w := q.w
	run, _ := t.Context().Value(runKeyT{}).(int)
	w.execs[q.i] = append(w.execs[q.i], run)
	t.Report().Remarkf("node %d", q.i)
	if w.panics[q.i] {
		panic(panicVal{q.i})
	}
	sum := w.version[q.i]
	ch := q.children()
	var groups [][]int
	if w.perChild {
		for _, c := range ch {
			groups = append(groups, []int{c})
		}
	} else if len(ch) > 0 {
		groups = [][]int{ch}
	}
	for _, g := range groups {
		qs := make([]incremental.Query[int], len(g))
		for k, c := range g {
			qs[k] = node{w, c}
		}
		res, err := incremental.Resolve(t, qs...)
		if err != nil {
			return 0, err
		}
		for k, r := range res {
			key := [2]int{run, g[k]}
			w.changed[key] = append(w.changed[key], r.Changed)
			if r.Fatal != nil {
				return 0, r.Fatal
			}
			sum += r.Value
		}
	}
	return sum, nil
}

// reference evaluator on the current versions (acyclic graphs only)
func (w *world) eval(i int) int {
	s := w.version[i]
	for j := 0; j < w.n; j++ {
		if w.adj[i][j] {
			s += w.eval(j)
		}
	}
	return s
}

func (w *world) closure(roots []int) [maxN]bool {
	var seen [maxN]bool
	var st []int
	for _, r := range roots {
		if !seen[r] {
			seen[r] = true
			st = append(st, r)
		}
	}
	for len(st) > 0 {
		i := st[len(st)-1]
		st = st[:len(st)-1]
		for j := 0; j < w.n; j++ {
			if w.adj[i][j] && !seen[j] {
				seen[j] = true
				st = append(st, j)
			}
		}
	}
	return seen
}

// reaches[i][k]: i reaches k through >=0 edges
func (w *world) reaches(i, k int) bool {
	c := w.closure([]int{i})
	return c[k]
}

func (w *world) String() string {
	var b strings.Builder
	for i := 0; i < w.n; i++ {
		fmt.Fprintf(&b, "%d->[", i)
		for j := 0; j < w.n; j++ {
			if w.adj[i][j] {
				fmt.Fprintf(&b, "%d", j)
			}
		}
		if w.panics[i] {
			b.WriteString("!")
		}
		b.WriteString("] ")
	}
	if w.desc {
		b.WriteString("desc ")
	}
	if w.perChild {
		b.WriteString("per-child")
	}
	return strings.TrimSpace(b.String())
}

type runResult struct {
	roots    []int
	res      []incremental.Result[int]
	err      error
	panicked any
	returned bool
	diagText []string
}

func doRun(w *world, ex *incremental.Executor, runIdx int, roots []int) *runResult {
	rr := &runResult{roots: roots}
	qs := make([]incremental.Query[int], len(roots))
	for k, r := range roots {
		qs[k] = node{w, r}
	}
	func() {
		defer func() {
			if p := recover(); p != nil {
				rr.panicked = p
			}
		}()
		ctx := context.WithValue(context.Background(), runKeyT{}, runIdx)
		res, rep, err := incremental.Run(ctx, ex, qs...)
		rr.res, rr.err = res, err
		if rep != nil {
			for _, d := range rep.Diagnostics {
				rr.diagText = append(rr.diagText, d.Message())
			}
		}
		for k, r := range res {
			key := [2]int{runIdx, roots[k]}
			w.changed[key] = append(w.changed[key], r.Changed)
		}
	}()
	rr.returned = true
	return rr
}

func checkSched(r *tape.Run, s *coop.Sched) bool {
	o := &s.Out
	switch {
	case o.Deadlock:
		r.Fail("deadlock", "deadlock: %s", o.Describe())
	case o.Livelock:
		r.Fail("livelock", "livelock: %s", o.Describe())
	case o.Horizon:
		r.Fail("step-horizon", "execution did not finish within the step horizon")
	case len(o.Crashes) > 0:
		r.Fail("crash", "panic escaped a goroutine: %v", o.Crashes)
	case len(o.Races) > 0:
		r.Fail("data-race", "unordered conflicting accesses: %v", o.Races)
	default:
		return true
	}
	return false
}

func heldNow() int64 {
	// only the executor's global semaphore outlives a Run; the per-Resolve join
	// semaphores are fully acquired by design while a Resolve is pending.
	return 0
}

var _ = errors.As
var _ = vsemaphore.VerifReset
var _ = hx.CaseID

func main() {
	prop := ""
	for i, a := range os.Args {
		if a == "-prop" && i+1 < len(os.Args) {
			prop = os.Args[i+1]
			os.Args = append(os.Args[:i], os.Args[i+2:]...)
			break
		}
	}
	hx.Main(prop, func(h *hx.H) {
		switch prop {
		case "C33":
			runC33(h)
		case "C34":
			runC34(h)
		case "C36a":
			runC36a(h)
		default:
			h.Infra = append(h.Infra, "unknown property "+prop)
		}
	})
}
