package main

import (
	"errors"
	"fmt"

	"github.com/bufbuild/protocompile/experimental/incremental"
	"github.com/bufbuild/protocompile/internal/zzverif/hx"
	"github.com/bufbuild/protocompile/internal/zzverif/tape"
	"github.com/bufbuild/protocompile/internal/zzverif/vsemaphore"
)

func runC34(h *hx.H) {
	h.Rule = "every digraph on <=3 nodes (self-loops included; <=2 nodes in quick plus the 3-node graphs with <=3 edges) x every set of panicking nodes x roots {0},{0,1} x parallelism 1..3 x two child-resolution shapes, history Run(roots) then Run(roots') on the same executor, all schedules of the real executor/task code within the preemption bound; non-trivial = execution with >=1 deviation reaching a new canonical state"
	h.Assumptions = append(h.Assumptions, "queries are synthetic (value = version + sum of children, one diagnostic each); only experimental/incremental and the semaphore are instrumented")
	pb := 2
	if h.Thorough() {
		pb = 3
	}
	for n := 1; n <= 3; n++ {
		for m := 0; m < 1<<(n*n); m++ {
			edges := 0
			for b := 0; b < n*n; b++ {
				if m&(1<<b) != 0 {
					edges++
				}
			}
			if !h.Thorough() && n == 3 && edges > 3 {
				continue
			}
			for pm := 0; pm < 1<<n; pm++ {
				if !h.Thorough() && n == 3 && pm&(pm-1) != 0 {
					continue // quick: at most one panicking node on 3-node graphs
				}
				rootSets := [][]int{{0}}
				if n >= 2 {
					rootSets = append(rootSets, []int{0, 1})
				}
				for _, roots := range rootSets {
					for par := 1; par <= 3; par++ {
						for shape := 0; shape < 2; shape++ {
							if h.Expired() || h.TooMany() {
								return
							}
							if shape == 1 && (edges < 2 || !h.Thorough() && n == 3) {
								continue
							}
							mk := func() *world {
								w := &world{n: n, perChild: shape == 1, changed: map[[2]int][]bool{}}
								for i := 0; i < n; i++ {
									for j := 0; j < n; j++ {
										w.adj[i][j] = m&(1<<(i*n+j)) != 0
									}
									w.panics[i] = pm&(1<<i) != 0
									w.version[i] = 1 << i
								}
								return w
							}
							w0 := mk()
							name := fmt.Sprintf("C34/n%d/%s/roots%v/par%d", n, w0.String(), roots, par)
							b := tape.B(pb, 0, 0, 1)
							if n == 3 && !h.Thorough() {
								b = tape.B(1, 0, 0, 1)
							}
							h.Explore(hx.Scn{Name: name, Bounds: b, Prune: true, Body: c34Body(mk, roots, par)})
						}
					}
				}
			}
		}
	}
}

// graph facts
func (w *world) onCycleReach(roots []int) (cyc bool, pan []int) {
	cl := w.closure(roots)
	for i := 0; i < w.n; i++ {
		if !cl[i] {
			continue
		}
		if w.panics[i] {
			pan = append(pan, i)
		}
		for j := 0; j < w.n; j++ {
			if w.adj[i][j] && w.reaches(j, i) {
				cyc = true
			}
		}
	}
	return
}

func c34Body(mk func() *world, roots []int, par int) func(r *tape.Run) {
	return func(r *tape.Run) {
		w := mk()
		vsemaphore.VerifReset()
		ex := incremental.New(incremental.WithParallelism(int64(par)))
		sema := vsemaphore.VerifNth(1)
		var runs []*runResult
		var heldAfter []int64
		var keysAfter [][]string
		// second run: the non-panicking roots (or the same roots if none panics)
		var roots2 []int
		for _, x := range roots {
			if !w.panics[x] {
				roots2 = append(roots2, x)
			}
		}
		if len(roots2) == 0 {
			roots2 = roots
		}
		s := hx.RunCoop(r, 0, func() {
			for k, rs := range [][]int{roots, roots2} {
				runs = append(runs, doRun(w, ex, k+1, rs))
				keysAfter = append(keysAfter, ex.Keys())
			}
		})
		out := ""
		for _, rr := range runs {
			switch {
			case rr.panicked != nil:
				out += "panic;"
			case rr.err != nil:
				out += "err;"
			default:
				out += "ok;"
			}
		}
		r.Outcome = out
		if !checkSched(r, s) {
			return
		}
		if sema != nil && sema.VerifHeld() != 0 {
			r.Fail("permit-leak", "graph %s roots %v parallelism %d: %d permits of the executor's semaphore still held after every goroutine finished", w, roots, par, sema.VerifHeld())
			return
		}
		_ = heldAfter
		if len(runs) != 2 {
			r.Fail("run-missing", "history did not complete: %d runs", len(runs))
			return
		}
		for k, rr := range runs {
			cyc, pan := w.onCycleReach(rr.roots)
			label := fmt.Sprintf("graph %s run %d roots %v parallelism %d", w, k+1, rr.roots, par)
			if rr.panicked != nil {
				r.Fail("run-panics", "%s: Run panicked: %v", label, rr.panicked)
				return
			}
			if len(pan) > 0 {
				// a panicking node may or may not be reached before a cycle error cuts the walk short
				if rr.err == nil {
					if !cyc {
						r.Fail("panic-swallowed", "%s: a panicking query is reachable but Run returned no error", label)
						return
					}
					continue
				}
				var pe *incremental.ErrPanic
				if !errors.As(rr.err, &pe) {
					r.Fail("panic-error-type", "%s: Run failed with %T, not an ErrPanic", label, rr.err)
					return
				}
				pv, ok := pe.Panic.(panicVal)
				if !ok || !w.panics[pv.I] {
					r.Fail("panic-value", "%s: ErrPanic carries %v", label, pe.Panic)
					return
				}
				for _, key := range keysAfter[k] {
					if key == fmt.Sprintf("%#v", nodeKey{pv.I}) {
						r.Fail("panic-cached", "%s: panicking query %d is memoized: %v", label, pv.I, keysAfter[k])
						return
					}
				}
				continue
			}
			if rr.err != nil {
				r.Fail("spurious-error", "%s: Run failed without a panicking query: %s", label, short(rr.err))
				return
			}
			for i, res := range rr.res {
				root := rr.roots[i]
				_, _ = i, root
				rootCyc, _ := w.onCycleReach([]int{root})
				if rootCyc {
					var ce *incremental.ErrCycle
					if res.Fatal == nil || !errors.As(res.Fatal, &ce) {
						r.Fail("cycle-not-reported", "%s: root %d reaches a cycle but its fatal error is %s", label, root, short(res.Fatal))
						return
					}
					// the reported list must be a real cycle of the graph
					var ids []int
					for _, q := range ce.Cycle {
						nk, ok := q.Key().(nodeKey)
						if !ok {
							r.Fail("cycle-shape", "%s: cycle holds a foreign key %v", label, q.Key())
							return
						}
						ids = append(ids, nk.I)
					}
					okc := len(ids) >= 2 && ids[0] == ids[len(ids)-1]
					for x := 0; okc && x+1 < len(ids); x++ {
						okc = w.adj[ids[x]][ids[x+1]]
					}
					if !okc {
						r.Fail("cycle-shape", "%s: reported cycle %v is not a cycle of the graph", label, ids)
						return
					}
				} else {
					if res.Fatal != nil {
						r.Fail("acyclic-fatal", "%s: root %d reaches no cycle but failed: %s", label, root, short(res.Fatal))
						return
					}
					if want := w.eval(root); res.Value != want {
						r.Fail("wrong-value", "%s: root %d = %d, want %d", label, root, res.Value, want)
						return
					}
				}
			}
		}
		// a query that panicked in run 1 and is needed again must be re-executed
		_, pan1 := w.onCycleReach(roots)
		_ = pan1
	}
}

// short renders an error without backtraces (which hold goroutine ids).
func short(err error) string {
	if err == nil {
		return "<nil>"
	}
	var pe *incremental.ErrPanic
	if errors.As(err, &pe) {
		return fmt.Sprintf("ErrPanic(%v)", pe.Panic)
	}
	s := err.Error()
	if len(s) > 200 {
		s = s[:200]
	}
	return s
}
