package main

import (
	"context"
	"fmt"
	"io/fs"
	"strings"

	"github.com/bufbuild/protocompile/experimental/incremental"
	"github.com/bufbuild/protocompile/experimental/incremental/queries"
	"github.com/bufbuild/protocompile/experimental/ir"
	"github.com/bufbuild/protocompile/experimental/source"
	"github.com/bufbuild/protocompile/internal/zzverif/hx"
	"github.com/bufbuild/protocompile/internal/zzverif/tape"
	"github.com/bufbuild/protocompile/internal/zzverif/vsync"
)

// memOpener serves sources from memory; pointer receiver so that queries compare by identity.
type memOpener struct{ files map[string]string }

func (m *memOpener) Open(path string) (*source.File, error) {
	if s, ok := m.files[path]; ok {
		return source.NewFile(path, s), nil
	}
	return nil, fs.ErrNotExist
}

type c36ws struct {
	name  string
	files map[string]string
	roots []string
}

func c36Workspaces() []c36ws {
	hdr := "syntax = \"proto2\";\npackage p;\n"
	return []c36ws{
		{"fanout-errors", map[string]string{
			"a.proto": hdr + "import \"b.proto\";\nimport \"c.proto\";\nmessage A { optional B b = 1; optional C c = 2; optional Nope n = 3; }\n",
			"b.proto": hdr + "message B { optional int32 x = 1; optional int32 y = 1; }\n",
			"c.proto": hdr + "message C { optional Missing m = 1; }\n",
		}, []string{"a.proto"}},
		{"two-roots", map[string]string{
			"a.proto": hdr + "import \"d.proto\";\nmessage A { optional D d = 1; optional Nope n = 2; }\n",
			"b.proto": hdr + "import \"d.proto\";\nmessage B { optional D d = 1; optional int32 d2 = 1; }\n",
			"d.proto": hdr + "import \"e.proto\";\nmessage D { optional int32 x = 1; }\n",
			"e.proto": hdr + "message E { optional int32 x = 1; }\n",
		}, []string{"a.proto", "b.proto"}},
		// a task with a self-edge (a file that imports itself) next to diagnostics of its own
		{"self-import-with-syntax-errors", map[string]string{
			"a.proto": hdr + "import \"a.proto\";\nimport \"b.proto\";\nmessage A { optional int32 x = ; }\nmessage A2 { optional B b = 1 }\n",
			"b.proto": hdr + "message B { optional int32 x = 1; optional int32 y = 1; }\n",
		}, []string{"a.proto"}},
		{"syntax-errors", map[string]string{
			"a.proto": hdr + "import \"b.proto\";\nmessage A { optional int32 x = ; }\nmessage A2 { optional B b = 1 }\n",
			"b.proto": hdr + "message B { optional int32 x = 1; }\nmessage B { }\n",
		}, []string{"a.proto", "b.proto"}},
	}
}

func runC36a(h *hx.H) {
	// the diagnostics of a run are gathered by ranging over sync.Maps of the executor
	vsync.RangeOrderChoice = true
	pb := 1
	if h.Thorough() {
		pb = 2
	}
	for _, ws := range c36Workspaces() {
		ref := tape.Replay(c36aBody(ws, 1, ""), nil)
		if ref.Failure != "" {
			h.Violate(ref.Sig, "C36a/"+ws.name+"/ref", ref.Failure, nil)
			continue
		}
		if strings.Count(ref.Outcome, "\n") < 2 {
			h.Infra = append(h.Infra, "C36a workspace "+ws.name+" produces fewer than 2 diagnostics: "+ref.Outcome)
			continue
		}
		for par := 1; par <= 3; par++ {
			if h.Expired() || h.TooMany() {
				return
			}
			if !h.Thorough() && par != 2 {
				continue
			}
			name := fmt.Sprintf("C36a/%s/par%d", ws.name, par)
			h.Explore(hx.Scn{Name: name, Bounds: tape.B(pb, 0, 0, 1), Prune: false, Split: 1, MaxExec: 200000, Body: c36aBody(ws, par, ref.Outcome)})
		}
	}
}

func c36aBody(ws c36ws, par int, want string) func(r *tape.Run) {
	return func(r *tape.Run) {
		ex := incremental.New(incremental.WithParallelism(int64(par)))
		opener := &source.Openers{source.WKTs(), &memOpener{ws.files}}
		sess := &ir.Session{}
		qs := make([]incremental.Query[*ir.File], len(ws.roots))
		for i, p := range ws.roots {
			qs[i] = queries.IR{Opener: opener, Session: sess, Path: p}
		}
		var out strings.Builder
		var failed string
		s := hx.RunCoop(r, 200000, func() {
			defer func() {
				if p := recover(); p != nil {
					failed = fmt.Sprint(p)
				}
			}()
			_, rep, err := incremental.Run(context.Background(), ex, qs...)
			if err != nil {
				failed = "run error: " + short(err)
				return
			}
			for i := range rep.Diagnostics {
				d := &rep.Diagnostics[i]
				p := d.Primary()
				fmt.Fprintf(&out, "%d %s[%d,%d) %s\n", d.Level(), p.Path(), p.Start, p.End, d.Message())
			}
		})
		r.Outcome = out.String()
		if !checkSched(r, s) {
			return
		}
		if failed != "" {
			r.Fail("c36a-run-failed", "workspace %s parallelism %d: %s", ws.name, par, failed)
			return
		}
		if want != "" && r.Outcome != want {
			r.Fail("diagnostics-schedule-dependent", "workspace %s parallelism %d: diagnostics differ from the sequential reference run:\n%s\n--- reference ---\n%s", ws.name, par, r.Outcome, want)
		}
	}
}
