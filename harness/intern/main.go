// Harness for C38: internal/intern (and internal/ext/syncx.Log underneath it)
// with their atomics, sync.Map and spin loops under the coop scheduler.
package main

import (
	"fmt"
	"strings"

	"github.com/bufbuild/protocompile/internal/intern"
	"github.com/bufbuild/protocompile/internal/zzverif/coop"
	"github.com/bufbuild/protocompile/internal/zzverif/hx"
	"github.com/bufbuild/protocompile/internal/zzverif/tape"
)

const alphabet = "0123456789abcdefghijklmnopqrstuvwxyzABCDEFGHIJKLMNOPQRSTUVWXYZ_."

func main() {
	hx.Main("C38", func(h *hx.H) {
		h.Rule = "(a) every string of length <=4 (quick) / <=5 (thorough) over the 64-character inline alphabet: inlined iff it has no trailing dot, Value(Intern(s)) == s, Query reports it present without interning; strings outside the domain (length 6, foreign byte, trailing dot) are not inlined; (b) every history of <=4 Intern/Query/Value operations over 3 non-inlinable strings against a map; (c) 2-3 threads x 1-2 operations over 2 colliding non-inlinable strings, all schedules of the real intern.go/syncx.Log (atomics, sync.Map, spin loops) with state-key pruning; non-trivial = string with a dot / history with a repeated string / execution with >=1 deviation reaching a new state"
		fullDomain(h)
		sequential(h)
		concurrent(h)
	})
}

func fullDomain(h *hx.H) {
	maxLen := 4
	if h.Thorough() {
		maxLen = 5
	}
	var t intern.Table
	buf := make([]byte, 0, 8)
	check := func(id string, s string) {
		h.Eval(1)
		wantInline := !strings.HasSuffix(s, ".")
		x := t.Intern(s)
		inl := x <= 0
		if s == "" {
			inl = x == 0
		}
		if strings.Contains(s, ".") {
			h.NonTrivial++
		}
		if inl != wantInline {
			h.Violate("inline-domain", id, fmt.Sprintf("string %q: inlined=%v (id %d), want %v", s, inl, int32(x), wantInline), nil)
			return
		}
		if got := t.Value(x); got != s {
			h.Violate("inline-roundtrip", id, fmt.Sprintf("string %q: Value(Intern) = %q (id %d)", s, got, int32(x)), nil)
			return
		}
		if wantInline {
			if q, ok := t.Query(s); !ok || q != x {
				h.Violate("inline-query", id, fmt.Sprintf("string %q: Query = (%d,%v), Intern gave %d", s, int32(q), ok, int32(x)), nil)
			}
		}
	}
	var rec func(depth int)
	blocks := int64(0)
	rec = func(depth int) {
		// shard and watchdog granularity: one block per (prefix of length <=2)
		if len(buf) <= 2 {
			idx, run := h.NextN()
			if !run {
				// still must descend: deeper prefixes belong to other blocks
				if len(buf) < 2 && depth > 0 {
					for i := 0; i < 64; i++ {
						buf = append(buf, alphabet[i])
						rec(depth - 1)
						buf = buf[:len(buf)-1]
					}
				}
				return
			}
			blocks++
			id := hx.CaseID(idx)
			if len(buf) < 2 {
				check(id, string(buf))
				if depth > 0 {
					for i := 0; i < 64; i++ {
						buf = append(buf, alphabet[i])
						rec(depth - 1)
						buf = buf[:len(buf)-1]
					}
				}
				return
			}
			// len(buf) == 2: enumerate the whole subtree below this prefix here
			var sub func(d int)
			sub = func(d int) {
				check(id, string(buf))
				if d == 0 {
					return
				}
				for i := 0; i < 64; i++ {
					buf = append(buf, alphabet[i])
					sub(d - 1)
					buf = buf[:len(buf)-1]
				}
			}
			sub(depth)
			return
		}
	}
	rec(maxLen)
	h.State(h.Evaluations)
	h.Trans(h.Evaluations)
	h.Trace(h.Evaluations)
	// outside the domain, exhaustively for short strings: every string of 1..2 arbitrary bytes and
	// of 3 bytes over a mixed alphabet (alphabet characters, their high-bit twins, UTF-8 lead and
	// continuation bytes, NUL, space, DEL) that is not made of alphabet characters only
	inAlphabet := func(s string) bool {
		for i := 0; i < len(s); i++ {
			if !strings.ContainsRune(string(alphabet[:]), rune(s[i])) || s[i] >= 0x80 {
				return false
			}
		}
		return true
	}
	outside := func(s string) {
		if inAlphabet(s) {
			return
		}
		idx, run := h.NextN()
		if !run {
			return
		}
		h.Eval(1)
		h.NonTrivial++
		var t2 intern.Table
		if _, ok := t2.Query(s); ok {
			h.Violate("outside-domain-query", hx.CaseID(idx), fmt.Sprintf("string %q is reported present in an empty table", s), nil)
			return
		}
		x := t2.Intern(s)
		if x <= 0 || t2.Value(x) != s {
			h.Violate("outside-domain", hx.CaseID(idx), fmt.Sprintf("string %q: id %d, Value %q", s, int32(x), t2.Value(x)), nil)
		}
	}
	for a := 0; a < 256; a++ {
		outside(string([]byte{byte(a)}))
		for b := 0; b < 256; b++ {
			outside(string([]byte{byte(a), byte(b)}))
		}
	}
	mixed := []byte{'a', 'Z', '0', '_', '.', 'a' | 0x80, '0' | 0x80, '_' | 0x80, 0xC3, 0xB1, 0xE5, 0x00, ' ', 0x7f, 0xff}
	for _, a := range mixed {
		for _, b := range mixed {
			for _, c := range mixed {
				outside(string([]byte{a, b, c}))
				outside(string([]byte{a, b, c, 'x', 'y'}))
			}
		}
	}
	for _, s := range []string{"abcdef", "aaaaaa", "a b", "é", "a-b", "a.", ".", "ab.", "abcd.", "\x00", "A\xff", "......"} {
		idx, run := h.NextN()
		if !run {
			continue
		}
		h.Eval(1)
		var t2 intern.Table
		if _, ok := t2.Query(s); ok {
			h.Violate("outside-domain-query", hx.CaseID(idx), fmt.Sprintf("string %q is reported present in an empty table", s), nil)
		}
		x := t2.Intern(s)
		if x <= 0 || t2.Value(x) != s {
			h.Violate("outside-domain", hx.CaseID(idx), fmt.Sprintf("string %q: id %d, Value %q", s, int32(x), t2.Value(x)), nil)
		}
	}
}

var long = []string{"alpha.beta.gamma", "alpha.beta.gammb", "trailing."}

type iop struct {
	kind byte // 'I' intern, 'Q' query, 'V' value of the id returned by an earlier op on the same string
	s    int
}

func (o iop) String() string { return fmt.Sprintf("%c(%d)", o.kind, o.s) }

func sequential(h *hx.H) {
	var alpha []iop
	for s := range long {
		alpha = append(alpha, iop{'I', s}, iop{'Q', s}, iop{'V', s})
	}
	var hist []iop
	var rec func()
	rec = func() {
		if len(hist) > 0 {
			if idx, run := h.NextN(); run {
				h.Eval(1)
				h.State(1)
				h.Trace(1)
				h.Trans(int64(len(hist)))
				var t intern.Table
				ids := map[int]intern.ID{}
				rep := false
				for k, o := range hist {
					for _, p := range hist[:k] {
						if p.s == o.s {
							rep = true
						}
					}
					bad := ""
					switch o.kind {
					case 'I':
						x := t.Intern(long[o.s])
						if prev, ok := ids[o.s]; ok && prev != x {
							bad = fmt.Sprintf("Intern gave %d, earlier %d", x, prev)
						}
						for s2, y := range ids {
							if s2 != o.s && y == x {
								bad = fmt.Sprintf("Intern gave %d, which string %d already has", x, s2)
							}
						}
						if x <= 0 {
							bad = fmt.Sprintf("non-inlinable string got id %d", x)
						}
						ids[o.s] = x
					case 'Q':
						x, ok := t.Query(long[o.s])
						want, known := ids[o.s]
						if ok != known || ok && x != want {
							bad = fmt.Sprintf("Query = (%d,%v), reference (%d,%v)", x, ok, want, known)
						}
					case 'V':
						if x, ok := ids[o.s]; ok {
							if v := t.Value(x); v != long[o.s] {
								bad = fmt.Sprintf("Value(%d) = %q", x, v)
							}
						}
					}
					if bad != "" {
						h.Violate("intern-sequential", hx.CaseID(idx), fmt.Sprintf("history %v step %d: %s", hist, k, bad), nil)
						break
					}
				}
				if rep {
					h.NonTrivial++
				}
			}
		}
		if len(hist) == 4 {
			return
		}
		for _, o := range alpha {
			hist = append(hist, o)
			rec()
			hist = hist[:len(hist)-1]
		}
	}
	rec()
}

func concurrent(h *hx.H) {
	// thread programs: sequences of 1-2 operations over strings 0 and 1
	progs := [][]iop{{{'I', 0}}, {{'I', 1}}, {{'I', 0}, {'I', 1}}, {{'I', 1}, {'I', 0}}, {{'Q', 0}, {'I', 0}}, {{'I', 0}, {'Q', 1}}, {{'I', 0}, {'I', 0}}, {{'Q', 0}}}
	var sets [][]int
	for a := range progs {
		for b := a; b < len(progs); b++ {
			sets = append(sets, []int{a, b})
			if h.Thorough() {
				for c := b; c < len(progs); c++ {
					sets = append(sets, []int{a, b, c})
				}
			}
		}
	}
	if !h.Thorough() {
		sets = append(sets, []int{0, 0, 1}, []int{0, 1, 2}, []int{2, 3, 0}, []int{0, 0, 0})
	}
	for _, pre := range []int{0, 2, 3} {
	for _, set := range sets {
		if h.Expired() || h.TooMany() {
			return
		}
		if pre > 0 && len(set) == 3 && !h.Thorough() {
			continue
		}
		writes := false
		for _, p := range set {
			for _, o := range progs[p] {
				if o.kind == 'I' {
					writes = true
				}
			}
		}
		if !writes {
			continue
		}
		var nm []string
		for _, p := range set {
			nm = append(nm, fmt.Sprint(progs[p]))
		}
		name := fmt.Sprintf("C38c/pre%d/", pre) + strings.Join(nm, "||")
		nops := 0
		for _, p := range set {
			nops += len(progs[p])
		}
		b := tape.B(-1, 0, 0, -1) // every interleaving (state-key pruned)
		switch {
		case len(set) == 3:
			b = tape.B(2, 0, 0, 1)
			if h.Thorough() {
				b = tape.B(4, 0, 0, 1)
			}
		case nops > 2 && !h.Thorough():
			b = tape.B(3, 0, 0, 1)
		case nops > 3:
			b = tape.B(5, 0, 0, 1)
		}
		h.Explore(hx.Scn{Name: name, Bounds: b, Prune: true, MaxExec: 3_000_000, Body: func(r *tape.Run) {
			var t intern.Table
			for i := 0; i < pre; i++ {
				// earlier entries move the log to the capacities where the next appends take
				// its fast path / its growth path
				t.Intern(fmt.Sprintf("pre.populated.%d", i))
			}
			type obs struct {
				op       iop
				id       intern.ID
				ok       bool
				startSeq int
				endSeq   int
			}
			seq := 0
			results := make([][]obs, len(set))
			internStarted := map[int]int{} // string -> seq of the first Intern start
			internDone := map[int]int{}    // string -> seq of the first Intern return
			s := hx.RunCoop(r, 0, func() {
				for ti, p := range set {
					ti, prog := ti, progs[p]
					coop.Go(func() {
						for _, o := range prog {
							seq++
							ob := obs{op: o, startSeq: seq}
							switch o.kind {
							case 'I':
								if _, ok := internStarted[o.s]; !ok {
									internStarted[o.s] = seq
								}
								ob.id = t.Intern(long[o.s])
								ob.ok = true
								// an ID that was handed out must be usable at once
								if v := t.Value(ob.id); v != long[o.s] {
									r.Fail("intern-value", "Value(%d) = %q right after Intern(%q) returned", ob.id, v, long[o.s])
								}
								seq++
								if _, ok := internDone[o.s]; !ok {
									internDone[o.s] = seq
								}
							case 'Q':
								ob.id, ob.ok = t.Query(long[o.s])
								seq++
							}
							ob.endSeq = seq
							results[ti] = append(results[ti], ob)
						}
					})
				}
			})
			o := &s.Out
			switch {
			case o.Deadlock, o.Livelock, o.Horizon:
				r.Fail("intern-hang", "%s", o.Describe())
				return
			case len(o.Crashes) > 0:
				r.Fail("intern-crash", "%v", o.Crashes)
				return
			}
			ids := map[int]intern.ID{}
			var out []string
			for _, rs := range results {
				for _, ob := range rs {
					out = append(out, fmt.Sprintf("%v=%d/%v", ob.op, ob.id, ob.ok))
					if ob.op.kind == 'Q' {
						st, started := internStarted[ob.op.s]
						dn, done := internDone[ob.op.s]
						if ob.ok && (!started || st > ob.endSeq) {
							r.Fail("query-before-intern", "Query found string %d before any Intern of it began (%v)", ob.op.s, results)
							return
						}
						if !ob.ok && done && dn < ob.startSeq {
							r.Fail("query-misses-interned", "Query missed string %d although an Intern of it had returned (%v)", ob.op.s, results)
							return
						}
						if !ob.ok {
							continue
						}
					}
					if ob.id <= 0 {
						r.Fail("intern-id", "operation %v returned id %d", ob.op, ob.id)
						return
					}
					if prev, ok := ids[ob.op.s]; ok && prev != ob.id {
						r.Fail("intern-different-ids", "string %d got ids %d and %d (%v)", ob.op.s, prev, ob.id, results)
						return
					}
					ids[ob.op.s] = ob.id
					if v := t.Value(ob.id); v != long[ob.op.s] {
						r.Fail("intern-value", "Value(%d) = %q, want %q", ob.id, v, long[ob.op.s])
						return
					}
				}
			}
			if a, ok := ids[0]; ok {
				if b, ok := ids[1]; ok && a == b {
					r.Fail("intern-same-id", "two different strings share id %d", a)
					return
				}
			}
			r.Outcome = strings.Join(out, " ")
		}})
	}
	}
}
