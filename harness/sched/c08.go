package main

import (
	"errors"
	"fmt"

	"github.com/bufbuild/protocompile/internal/zzverif/hx"
	"github.com/bufbuild/protocompile/internal/zzverif/tape"
	"github.com/bufbuild/protocompile/reporter"
)

type c08ws struct {
	name    string
	files   fileSet
	req     []string
	maxErrs int
}

func c08Workspaces() []c08ws {
	hdr := "syntax = \"proto2\";\npackage p;\n"
	return []c08ws{
		{"warn-only", fileSet{
			"a.proto": hdr + "import \"b.proto\";\nmessage A { optional int32 x = 1; }\n",
			"b.proto": hdr + "message B { optional int32 x = 1; }\n",
		}, []string{"a.proto"}, 0},
		{"one-error", fileSet{
			"a.proto": hdr + "import \"b.proto\";\nmessage A { optional Nope x = 1; optional B b = 2; }\n",
			"b.proto": hdr + "message B { optional int32 x = 1; }\n",
		}, []string{"a.proto"}, 1},
		{"two-files", fileSet{
			"a.proto": hdr + "import \"b.proto\";\nimport \"c.proto\";\nmessage A { optional int32 x = 1; }\n",
			"b.proto": hdr + "message B { optional Nope x = 1; }\n",
			"c.proto": hdr + "message C { optional int32 x = 1; optional int32 y = 1; }\n",
		}, []string{"a.proto"}, 2},
		{"three-errors", fileSet{
			"a.proto": hdr + "import \"b.proto\";\nimport \"c.proto\";\nmessage A { optional int32 x = 1; }\n",
			"b.proto": hdr + "message B { optional int32 x = ; optional int32 y = 2 }\nmessage B2 { int32 z = 1; }\n",
			"c.proto": hdr + "message C { optional Nope x = 1; }\n",
		}, []string{"a.proto"}, 3},
		{"two-warnings", fileSet{
			"a.proto": "package p;\nmessage A { optional int32 x = 1; }\n",
			"b.proto": "package p;\nmessage B { optional int32 x = 1; }\n",
		}, []string{"a.proto", "b.proto"}, 0},
		{"warning-and-error", fileSet{
			"a.proto": "package p;\nmessage A { optional int32 x = 1; }\n",
			"b.proto": hdr + "message B { optional Nope x = 1; }\n",
			"c.proto": "package p;\nimport \"a.proto\";\nmessage C { optional int32 x = 1; }\n",
		}, []string{"a.proto", "b.proto", "c.proto"}, 1},
		// the resolver's own descriptor.proto has an error; the requested files are fine and do not
		// import it (it is compiled implicitly and its failure is not theirs)
		{"error-in-implicit-descriptor", fileSet{
			"a.proto":                          hdr + "message A { optional int32 x = 1; }\n",
			"b.proto":                          hdr + "import \"a.proto\";\nmessage B { optional A a = 1; }\n",
			"google/protobuf/descriptor.proto": minimalDescriptorProto + "message Broken { optional Nope n = 1; }\n",
		}, []string{"b.proto"}, 1},
		{"roots-with-errors", fileSet{
			"a.proto": hdr + "message A { optional Nope x = 1; }\n",
			"b.proto": hdr + "message B { optional Nope y = 1; }\n",
			"c.proto": hdr + "import \"a.proto\";\nmessage C { optional int32 x = 1; }\n",
		}, []string{"a.proto", "b.proto", "c.proto"}, 3},
	}
}

func runC08(h *hx.H) {
	h.Rule = "error-bearing workspaces (incl. an error in a descriptor.proto that the resolver supplies and nothing imports) x reporter aborting at the k-th error (k=1..e+1) or never x MaxParallelism 1..2 x all schedules within the preemption bound, with a scheduling point inside every reporter callback; monitor automaton on the callbacks"
	pb := 2
	if h.Thorough() {
		pb = 3
	}
	for _, ws := range c08Workspaces() {
		for k := -1; k <= ws.maxErrs+1; k++ {
			if k == 0 {
				continue
			}
			for par := 1; par <= 2; par++ {
				if h.Expired() || h.TooMany() {
					return
				}
				name := fmt.Sprintf("C08/%s/abort%d/par%d", ws.name, k, par)
				h.Explore(hx.Scn{Name: name, Bounds: tape.B(pb, 0, 0, 1), Prune: true, Body: c08Body(ws, k, par)})
			}
		}
	}
}

func c08Body(ws c08ws, k, par int) func(r *tape.Run) {
	return func(r *tape.Run) {
		sentinel := fmt.Errorf("sentinel-%d", k)
		rep := &recReporter{abortAt: k, sentinel: sentinel, yield: true}
		o := runCompile(r, &memResolver{files: ws.files}, rep, par, nil, ws.req, nil)
		r.Outcome = fmt.Sprintf("errs=%d warns=%d aborted=%v ok=%v", len(rep.errs), len(rep.warns), rep.returned, o.err == nil)
		if !o.checkContained(r) {
			return
		}
		switch {
		case rep.overlap:
			r.Fail("reporter-concurrent", "reporter was entered while another callback was active")
		case rep.afterErr:
			r.Fail("error-after-abort", "an error reached the reporter after it had returned an error: %v", rep.errs)
		case o.abortedAtReturn && o.err != sentinel:
			r.Fail("abort-error-lost", "reporter aborted with %v but Compile returned %v", sentinel, o.err)
		case !o.abortedAtReturn && o.errsAtReturn > 0 && !errors.Is(o.err, reporter.ErrInvalidSource):
			r.Fail("invalid-source-missing", "%d errors reported, none aborted, Compile returned %v", o.errsAtReturn, o.err)
		case o.errsAtReturn == 0 && o.err != nil:
			r.Fail("fails-without-error", "no error reported (warnings: %v) but Compile failed: %v", rep.warns, o.err)
		case o.err == nil && o.errsAtReturn > 0:
			r.Fail("success-with-errors", "Compile succeeded although errors were reported: %v", rep.errs)
		}
	}
}
