package main

import (
	"flag"
	"os"

	"github.com/bufbuild/protocompile/internal/zzverif/hx"
)

func main() {
	prop := "C06"
	for i, a := range os.Args {
		if a == "-prop" && i+1 < len(os.Args) {
			prop = os.Args[i+1]
			os.Args = append(os.Args[:i], os.Args[i+2:]...)
			break
		}
	}
	_ = flag.CommandLine
	hx.Main(prop, func(h *hx.H) {
		switch prop {
		case "C05":
			runC05(h)
		case "C06":
			runC06(h)
		case "C07":
			runC07(h)
		case "C08":
			runC08(h)
		default:
			h.Infra = append(h.Infra, "unknown property "+prop)
		}
	})
}
