package main

import (
	"fmt"
	"strings"

	"github.com/bufbuild/protocompile/internal/zzverif/hx"
	"github.com/bufbuild/protocompile/internal/zzverif/tape"
)

// graph: adj[i][j] = file i imports file j; missing[i] = file i also imports a file that does not exist.
type graph struct {
	n       int
	adj     [4][4]bool
	missing [4]bool
}

func (g graph) String() string {
	var b strings.Builder
	for i := 0; i < g.n; i++ {
		fmt.Fprintf(&b, "%d->[", i)
		for j := 0; j < g.n; j++ {
			if g.adj[i][j] {
				fmt.Fprintf(&b, "%d", j)
			}
		}
		if g.missing[i] {
			b.WriteString("?")
		}
		b.WriteString("] ")
	}
	return strings.TrimSpace(b.String())
}

// swap12Smaller reports whether exchanging the labels 1 and 2 gives a graph
// with a smaller encoding (then that one represents the pair).
func (g graph) swap12Smaller() bool {
	p := [4]int{0, 2, 1, 3}
	enc := func(f func(i, j int) bool, m func(i int) bool) (v int) {
		for i := 0; i < 3; i++ {
			for j := 0; j < 3; j++ {
				v <<= 1
				if f(i, j) {
					v |= 1
				}
			}
			v <<= 1
			if m(i) {
				v |= 1
			}
		}
		return v
	}
	a := enc(func(i, j int) bool { return g.adj[i][j] }, func(i int) bool { return g.missing[i] })
	b := enc(func(i, j int) bool { return g.adj[p[i]][p[j]] }, func(i int) bool { return g.missing[p[i]] })
	return b < a
}

func fname(i int) string { return fmt.Sprintf("f%d.proto", i) }

func (g graph) files() fileSet {
	fs := fileSet{}
	for i := 0; i < g.n; i++ {
		var b strings.Builder
		b.WriteString("syntax = \"proto3\";\n")
		for j := 0; j < g.n; j++ {
			if g.adj[i][j] {
				fmt.Fprintf(&b, "import \"%s\";\n", fname(j))
			}
		}
		if g.missing[i] {
			fmt.Fprintf(&b, "import \"m%d.proto\";\n", i)
		}
		fs[fname(i)] = b.String()
	}
	return fs
}

// oracle facts computed on the graph
func (g graph) reach(roots []int) (reach [4]bool, cyclic, missing bool) {
	var stack []int
	for _, r := range roots {
		if !reach[r] {
			reach[r] = true
			stack = append(stack, r)
		}
	}
	for len(stack) > 0 {
		i := stack[len(stack)-1]
		stack = stack[:len(stack)-1]
		for j := 0; j < g.n; j++ {
			if g.adj[i][j] && !reach[j] {
				reach[j] = true
				stack = append(stack, j)
			}
		}
	}
	// cycle among reachable nodes: DFS colouring
	color := [4]int{}
	var dfs func(i int) bool
	dfs = func(i int) bool {
		color[i] = 1
		for j := 0; j < g.n; j++ {
			if !g.adj[i][j] {
				continue
			}
			if color[j] == 1 {
				return true
			}
			if color[j] == 0 && dfs(j) {
				return true
			}
		}
		color[i] = 2
		return false
	}
	for i := 0; i < g.n; i++ {
		if reach[i] && color[i] == 0 && dfs(i) {
			cyclic = true
		}
		if reach[i] && g.missing[i] {
			missing = true
		}
	}
	return
}

const cyclePhrase = "cycle found in imports"

func c06Body(g graph, roots []int, par int) func(r *tape.Run) {
	fs := g.files()
	_, cyclic, missing := g.reach(roots)
	names := make([]string, len(roots))
	for i, r := range roots {
		names[i] = fname(r)
	}
	return func(r *tape.Run) {
		rep := &recReporter{}
		o := runCompile(r, &memResolver{files: fs}, rep, par, nil, names, nil)
		cycleReported := false
		for _, e := range rep.errs {
			if strings.Contains(e, cyclePhrase) {
				cycleReported = true
			}
		}
		switch {
		case o.err == nil:
			r.Outcome = "ok"
		case strings.Contains(o.err.Error(), cyclePhrase):
			r.Outcome = "cycle-error"
		default:
			r.Outcome = "other-error"
		}
		if !o.checkContained(r) {
			return
		}
		switch {
		case !cyclic && !missing:
			if o.err != nil {
				r.Fail("acyclic-fails", "acyclic graph %v failed: %v", g, o.err)
			}
		case !cyclic && missing:
			if o.err == nil {
				r.Fail("missing-accepted", "graph %v with a missing import compiled", g)
			} else if cycleReported {
				r.Fail("false-cycle", "acyclic graph %v reported an import cycle: %v", g, rep.errs)
			}
		case cyclic && !missing:
			if o.err == nil {
				r.Fail("cycle-accepted", "cyclic graph %v compiled successfully", g)
			} else if !cycleReported || !strings.Contains(o.err.Error(), cyclePhrase) {
				r.Fail("cycle-not-reported", "cyclic graph %v failed without an import-cycle error: err=%v reported=%v", g, o.err, rep.errs)
			}
		default:
			if o.err == nil {
				r.Fail("cycle-accepted", "cyclic graph %v with a missing import compiled", g)
			}
		}
	}
}

func allGraphs(n int, withMissing bool) []graph {
	var out []graph
	bits := n * n
	mm := 1
	if withMissing {
		mm = 1 << n
	}
	for m := 0; m < 1<<bits; m++ {
		for ms := 0; ms < mm; ms++ {
			g := graph{n: n}
			for i := 0; i < n; i++ {
				for j := 0; j < n; j++ {
					g.adj[i][j] = m&(1<<(i*n+j)) != 0
				}
				g.missing[i] = ms&(1<<i) != 0
			}
			out = append(out, g)
		}
	}
	return out
}

func family4() map[string]graph {
	mk := func(edges ...[2]int) graph {
		g := graph{n: 4}
		for _, e := range edges {
			g.adj[e[0]][e[1]] = true
		}
		return g
	}
	return map[string]graph{
		"4cycle":        mk([2]int{0, 1}, [2]int{1, 2}, [2]int{2, 3}, [2]int{3, 0}),
		"diamond":       mk([2]int{0, 1}, [2]int{0, 2}, [2]int{1, 3}, [2]int{2, 3}),
		"diamond+back":  mk([2]int{0, 1}, [2]int{0, 2}, [2]int{1, 3}, [2]int{2, 3}, [2]int{3, 0}),
		"two2cycles":    mk([2]int{0, 1}, [2]int{1, 0}, [2]int{0, 2}, [2]int{2, 3}, [2]int{3, 2}),
		"cycle+tail":    mk([2]int{0, 1}, [2]int{1, 2}, [2]int{2, 3}, [2]int{3, 2}),
		"fanout":        mk([2]int{0, 1}, [2]int{0, 2}, [2]int{0, 3}),
		"chain4":        mk([2]int{0, 1}, [2]int{1, 2}, [2]int{2, 3}),
		"fan+crosscyc":  mk([2]int{0, 1}, [2]int{0, 2}, [2]int{1, 2}, [2]int{2, 1}, [2]int{0, 3}),
	}
}

func runC06(h *hx.H) {
	h.Rule = "every directed import graph on <=3 files (self-loops, optional missing import) x requested set x MaxParallelism 1..3, all schedules of the real compiler.go/semaphore within the preemption bound; non-trivial = execution with >=1 deviation reaching a new (outcome, canonical state)"
	h.Assumptions = append(h.Assumptions, "interleavings are sequentially consistent and switch only at synchronisation operations (mutex, once, channel, semaphore); parser/linker code between them runs atomically")
	pb := 2
	if h.Thorough() {
		pb = 3
	}
	type cfg struct {
		g     graph
		roots []int
		par   int
		name  string
		b     tape.Bounds
		prune bool
		split int
	}
	var cfgs []cfg
	add := func(g graph, name string, b tape.Bounds, prune bool, split int) {
		rootSets := [][]int{{0}}
		if g.n >= 2 {
			rootSets = append(rootSets, []int{0, 1})
		}
		for _, rs := range rootSets {
			if len(rs) == 1 && g.n == 3 && g.swap12Smaller() {
				continue // isomorphic to a graph that is enumerated (relabel 1<->2)
			}
			for par := 1; par <= 3; par++ {
				bb := b
				if !h.Thorough() && g.n == 3 && par != 2 && bb[0] > 1 {
					bb[0] = 1
				}
				cfgs = append(cfgs, cfg{g, rs, par, fmt.Sprintf("C06/%s/req%v/par%d", name, rs, par), bb, prune, split})
			}
		}
	}
	for n := 1; n <= 3; n++ {
		withMissing := n <= 2 || h.Thorough()
		for _, g := range allGraphs(n, withMissing) {
			b := tape.B(pb, 0, 0, 1)
			if n <= 2 && h.Thorough() {
				b = tape.B(-1, 0, 0, -1) // all interleavings, with partial-order pruning
				add(g, "n"+fmt.Sprint(n)+"/"+g.String(), b, true, 0)
				continue
			}
			add(g, "n"+fmt.Sprint(n)+"/"+g.String(), b, true, 0)
		}
	}
	if h.Thorough() {
		for _, name := range []string{"4cycle", "diamond", "diamond+back", "two2cycles", "cycle+tail", "fanout", "chain4", "fan+crosscyc"} {
			add(family4()[name], "n4/"+name, tape.B(3, 0, 0, 1), true, 2)
		}
	} else {
		for _, name := range []string{"4cycle", "diamond+back", "two2cycles"} {
			add(family4()[name], "n4/"+name, tape.B(1, 0, 0, 1), false, 0)
		}
	}
	for _, c := range cfgs {
		if h.Expired() || h.TooMany() {
			break
		}
		h.Explore(hx.Scn{Name: c.name, Bounds: c.b, Prune: c.prune, Split: c.split, Body: c06Body(c.g, c.roots, c.par)})
	}
	h.Extra["scenarios"] = len(cfgs)
	h.Extra["preemption_bound"] = pb
}
