package main

import (
	"context"
	"errors"
	"fmt"
	"io"

	"github.com/bufbuild/protocompile"
	"github.com/bufbuild/protocompile/internal/zzverif/coop"
	"github.com/bufbuild/protocompile/internal/zzverif/hx"
	"github.com/bufbuild/protocompile/internal/zzverif/tape"
)

// fault kinds, in alphabet order (simplest first); index 0 is "no fault".
const (
	fOK = iota
	fResolveErr
	fResolvePanic
	fReadErr0
	fReadErrMid
	fReadPanic
	fCloseErr
	fClosePanic
	fCancelNow
)

var faultNames = []string{"ok", "resolver-error", "resolver-panic", "read-error@0", "read-error@mid", "read-panic", "close-error", "close-panic", "cancel-now"}

type faultReader struct {
	data       string
	pos        int
	failAt     int // -1 none
	panicAt    int
	closeErr   bool
	closePanic bool
	pv         any
}

func (f *faultReader) Read(p []byte) (int, error) {
	if f.panicAt >= 0 && f.pos >= f.panicAt {
		panic(f.pv)
	}
	if f.failAt >= 0 && f.pos >= f.failAt {
		return 0, errors.New("injected read error")
	}
	if f.pos >= len(f.data) {
		return 0, io.EOF
	}
	end := len(f.data)
	if f.failAt >= 0 && end > f.failAt {
		end = f.failAt
	}
	if f.panicAt >= 0 && end > f.panicAt {
		end = f.panicAt
	}
	n := copy(p, f.data[f.pos:end])
	f.pos += n
	return n, nil
}

func (f *faultReader) Close() error {
	if f.closePanic {
		panic(f.pv)
	}
	if f.closeErr {
		return errors.New("injected close error")
	}
	return nil
}

type panicVal struct{ path string }

func runC07(h *hx.H) {
	h.Rule = "compile of A->{B,C}: every plan of <=1 (quick) / <=2 (thorough) faults over the resolver calls (error, panic, reader error at byte 0 / mid-file, reader panic, Close error, Close panic, cancel-now), an optional cancel thread scheduled like any other, MaxParallelism 1..2, all schedules within the preemption bound"
	hdr := "syntax = \"proto2\";\npackage p;\n"
	files := fileSet{
		"a.proto": hdr + "import \"b.proto\";\nimport \"c.proto\";\nmessage A { optional B b = 1; optional C c = 2; }\n",
		"b.proto": hdr + "message B { optional int32 x = 1; }\n",
		"c.proto": hdr + "message C { optional int32 x = 1; }\n",
	}
	nf, fb, pb := 9, 1, 1
	if h.Thorough() {
		fb, pb = 2, 2
	}
	for par := 1; par <= 2; par++ {
		for _, cancelThread := range []bool{false, true} {
			if h.Expired() || h.TooMany() {
				return
			}
			name := fmt.Sprintf("C07/fanout/par%d/cancelthread=%v", par, cancelThread)
			h.Explore(hx.Scn{Name: name, Bounds: tape.B(pb, fb, 0, 1), Prune: true, Split: 1, Body: c07Body(files, par, cancelThread, nf)})
		}
	}
}

func c07Body(files fileSet, par int, cancelThread bool, nfaults int) func(r *tape.Run) {
	return func(r *tape.Run) {
		var cancelFn context.CancelFunc
		cancelled := false
		var injected []string
		failing := 0 // failure-inducing faults on files other than the descriptor.proto probe
		panics := 0
		var lastPanic any
		res := &memResolver{files: files}
		res.before = func(path string, ord int) (*protocompile.SearchResult, error, bool) {
			k := r.Choose(nfaults, tape.Fault, 1)
			coop.Chose(tape.C{R: r}, k)
			if k == fOK {
				return nil, nil, false
			}
			probe := path == "google/protobuf/descriptor.proto"
			injected = append(injected, fmt.Sprintf("%s#%d:%s", path, ord, faultNames[k]))
			pv := panicVal{path}
			mark := func(isPanic bool) {
				if probe {
					return
				}
				failing++
				if isPanic {
					panics++
					lastPanic = pv
				}
			}
			src, ok := files[path]
			switch k {
			case fResolveErr:
				mark(false)
				return nil, errors.New("injected resolver error"), true
			case fResolvePanic:
				mark(true)
				panic(pv)
			case fCancelNow:
				cancelled = true
				cancelFn()
				return nil, nil, false
			}
			if !ok {
				// the probe for a custom descriptor.proto finds nothing; reader faults do not apply
				return nil, nil, false
			}
			fr := &faultReader{data: src, failAt: -1, panicAt: -1, pv: pv}
			switch k {
			case fReadErr0:
				fr.failAt = 0
				mark(false)
			case fReadErrMid:
				fr.failAt = len(src) / 2
				mark(false)
			case fReadPanic:
				fr.panicAt = len(src) / 2
				mark(true)
			case fCloseErr:
				fr.closeErr = true
			case fClosePanic:
				fr.closePanic = true
				mark(true)
			}
			return &protocompile.SearchResult{Source: fr}, nil, true
		}
		rep := &recReporter{}
		o := runCompile(r, res, rep, par, nil, []string{"a.proto"}, func(ctx context.Context, cancel context.CancelFunc) {
			cancelFn = cancel
			if cancelThread {
				coop.Go(func() {
					coop.Step("cancel")
					cancelled = true
					cancel()
				})
			}
		})
		r.Outcome = fmt.Sprintf("err=%v faults=%d cancelled=%v", o.err != nil, len(injected), cancelled)
		r.Note("faults", injected)
		if !o.checkContained(r) {
			return
		}
		switch {
		case failing > 0 && o.err == nil:
			r.Fail("fault-swallowed", "faults %v were injected on files that are compiled but Compile succeeded", injected)
		case failing == 0 && !cancelled && o.err != nil:
			r.Fail("spurious-failure", "no failure-inducing fault (%v) and no cancellation, but Compile failed: %v", injected, o.err)
		case failing == 1 && panics == 1 && !cancelled:
			var pe protocompile.PanicError
			if !errors.As(o.err, &pe) {
				r.Fail("panic-not-surfaced", "single injected panic %v but the error is not a PanicError: %v", injected, o.err)
			} else if pe.Value != lastPanic {
				r.Fail("panic-value-lost", "PanicError carries %v, injected %v", pe.Value, lastPanic)
			}
		}
	}
}
