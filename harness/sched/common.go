// Harness for the schedule-explored properties of the stable compiler
// (C05, C06, C07, C08): the repository's own compiler.go, reporter.go,
// linker/symbols.go and a copy of x/sync/semaphore run under the coop scheduler.
package main

import (
	"context"
	"crypto/sha256"
	"errors"
	"fmt"
	"io"
	"sort"
	"strings"

	"google.golang.org/protobuf/proto"

	"github.com/bufbuild/protocompile"
	"github.com/bufbuild/protocompile/internal/zzverif/coop"
	"github.com/bufbuild/protocompile/internal/zzverif/hx"
	"github.com/bufbuild/protocompile/internal/zzverif/tape"
	"github.com/bufbuild/protocompile/internal/zzverif/vsemaphore"
	"github.com/bufbuild/protocompile/linker"
	"github.com/bufbuild/protocompile/reporter"
)

type fileSet map[string]string

// memResolver serves sources from memory. before, when set, is consulted on
// every call (fault injection); it may return a replacement result.
type memResolver struct {
	files  fileSet
	calls  int
	before func(path string, ordinal int) (*protocompile.SearchResult, error, bool)
}

func (m *memResolver) FindFileByPath(path string) (protocompile.SearchResult, error) {
	m.calls++
	if m.before != nil {
		if sr, err, handled := m.before(path, m.calls); handled {
			if sr == nil {
				return protocompile.SearchResult{}, err
			}
			return *sr, err
		}
	}
	src, ok := m.files[path]
	if !ok {
		return protocompile.SearchResult{}, fmt.Errorf("file not found: %s", path)
	}
	return protocompile.SearchResult{Source: strings.NewReader(src)}, nil
}

type recReporter struct {
	errs     []string
	warns    []string
	abortAt  int // 0 = abort at first error (default reporter behaviour); -1 = never abort
	sentinel error
	active   int
	overlap  bool
	afterErr bool // an Error callback arrived after one returned non-nil
	returned bool
	yield    bool
}

func (r *recReporter) Error(e reporter.ErrorWithPos) error {
	r.active++
	if r.active > 1 {
		r.overlap = true
	}
	if r.yield {
		coop.Step("reporter.Error")
	}
	if r.returned {
		r.afterErr = true
	}
	r.errs = append(r.errs, e.Error())
	var out error
	switch {
	case r.abortAt == 0:
		out = e
	case r.abortAt > 0 && len(r.errs) >= r.abortAt:
		out = r.sentinel
	}
	if out != nil {
		r.returned = true
	}
	r.active--
	return out
}

func (r *recReporter) Warning(e reporter.ErrorWithPos) {
	r.active++
	if r.active > 1 {
		r.overlap = true
	}
	if r.yield {
		coop.Step("reporter.Warning")
	}
	r.warns = append(r.warns, e.Error())
	r.active--
}

// compileOutcome is everything the oracles look at.
type compileOutcome struct {
	files linker.Files
	err   error
	sched *coop.Sched
	rep   *recReporter
	held  int64
	sems  int
	// reporter state at the moment Compile returned (tasks that are still
	// running may call the reporter afterwards)
	abortedAtReturn bool
	errsAtReturn    int
}

func runCompile(r *tape.Run, res protocompile.Resolver, rep *recReporter, par int, syms *linker.Symbols, names []string, extra func(ctx context.Context, cancel context.CancelFunc)) *compileOutcome {
	out := &compileOutcome{rep: rep}
	vsemaphore.VerifReset()
	out.sched = hx.RunCoop(r, 0, func() {
		ctx, cancel := context.WithCancel(context.Background())
		defer cancel()
		if extra != nil {
			extra(ctx, cancel)
		}
		c := protocompile.Compiler{Resolver: res, MaxParallelism: par, Reporter: rep, Symbols: syms}
		out.files, out.err = c.Compile(ctx, names...)
		out.abortedAtReturn, out.errsAtReturn = rep.returned, len(rep.errs)
	})
	out.held, out.sems = vsemaphore.VerifHeldTotal()
	return out
}

// basic liveness/safety every scenario demands.
func (o *compileOutcome) checkContained(r *tape.Run) bool {
	s := &o.sched.Out
	switch {
	case s.Deadlock:
		r.Fail("deadlock", "deadlock: %s", s.Describe())
	case s.Livelock:
		r.Fail("livelock", "livelock: %s", s.Describe())
	case s.Horizon:
		r.Fail("step-horizon", "execution did not finish within the step horizon")
	case len(s.Crashes) > 0:
		r.Fail("crash", "panic escaped a goroutine: %v", s.Crashes)
	case len(s.Races) > 0:
		r.Fail("data-race", "unordered conflicting accesses: %v", s.Races)
	case o.held != 0:
		r.Fail("permit-leak", "%d semaphore permits still held after all goroutines finished", o.held)
	default:
		return true
	}
	return false
}

func digest(files linker.Files, names []string) string {
	h := sha256.New()
	byName := map[string]linker.File{}
	for _, f := range files {
		if f != nil {
			byName[f.Path()] = f
		}
	}
	sorted := append([]string(nil), names...)
	sort.Strings(sorted)
	for _, n := range sorted {
		f := byName[n]
		if f == nil {
			fmt.Fprintf(h, "%s:nil;", n)
			continue
		}
		res, ok := f.(linker.Result)
		if !ok {
			fmt.Fprintf(h, "%s:notresult;", n)
			continue
		}
		b, err := proto.MarshalOptions{Deterministic: true}.Marshal(res.FileDescriptorProto())
		if err != nil {
			fmt.Fprintf(h, "%s:err;", n)
			continue
		}
		fmt.Fprintf(h, "%s:%x;", n, sha256.Sum256(b))
	}
	return fmt.Sprintf("%x", h.Sum(nil))[:16]
}

func perms(xs []string) [][]string {
	if len(xs) <= 1 {
		return [][]string{append([]string(nil), xs...)}
	}
	var out [][]string
	for i := range xs {
		rest := append(append([]string(nil), xs[:i]...), xs[i+1:]...)
		for _, p := range perms(rest) {
			out = append(out, append([]string{xs[i]}, p...))
		}
	}
	return out
}

var _ = errors.Is
var _ = io.EOF
