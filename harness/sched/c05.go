package main

import (
	"context"
	"fmt"
	"sort"

	"google.golang.org/protobuf/reflect/protodesc"
	"google.golang.org/protobuf/reflect/protoreflect"
	"google.golang.org/protobuf/reflect/protoregistry"

	"github.com/bufbuild/protocompile"
	"github.com/bufbuild/protocompile/linker"

	"github.com/bufbuild/protocompile/internal/zzverif/hx"
	"github.com/bufbuild/protocompile/internal/zzverif/tape"
)

type c05scn struct {
	name     string
	files    fileSet
	descs    []string // files of the set that the resolver hands out as built descriptors
	request  [][]string // requested name sets (every permutation of each is enumerated)
	mustFail bool
	pbQuick  int
	pbThor   int
}

func c05Scenarios() []c05scn {
	p2 := func(pkg, body string, imports ...string) string {
		s := "syntax = \"proto2\";\npackage " + pkg + ";\n"
		for _, i := range imports {
			s += "import " + i + ";\n"
		}
		return s + body
	}
	return []c05scn{
		{
			name: "chain",
			files: fileSet{
				"a.proto": p2("p", "message A { optional B b = 1; }\n", `"b.proto"`),
				"b.proto": p2("p", "message B { optional C c = 1; }\n", `"c.proto"`),
				"c.proto": p2("p", "message C { optional int32 x = 1; }\n"),
			},
			request: [][]string{{"a.proto"}, {"a.proto", "b.proto", "c.proto"}},
			pbQuick: 2, pbThor: 3,
		},
		{
			name: "diamond",
			files: fileSet{
				"a.proto": p2("p", "message A { optional B b = 1; optional C c = 2; }\n", `"b.proto"`, `"c.proto"`),
				"b.proto": p2("p", "message B { optional D d = 1; }\n", `"d.proto"`),
				"c.proto": p2("p", "message C { optional D d = 1; }\n", `"d.proto"`),
				"d.proto": p2("p", "message D { optional int32 x = 1; extensions 100 to 200; }\n"),
			},
			request: [][]string{{"a.proto"}, {"b.proto", "c.proto"}},
			pbQuick: 1, pbThor: 2,
		},
		{
			name: "fanout",
			files: fileSet{
				"a.proto": p2("p", "message A { optional B b = 1; optional C c = 2; optional D d = 3; }\n", `"b.proto"`, `"c.proto"`, `"d.proto"`),
				"b.proto": p2("p.b", "message B { optional int32 x = 1; }\n"),
				"c.proto": p2("p.c", "message C { optional int32 x = 1; }\n"),
				"d.proto": p2("p.d", "message D { optional int32 x = 1; }\n"),
			},
			request: [][]string{{"a.proto"}},
			pbQuick: 1, pbThor: 2,
		},
		{
			name: "public-reexport",
			files: fileSet{
				"a.proto": p2("q", "message A { optional p.C c = 1; }\n", `"b.proto"`),
				"b.proto": p2("p", "message B { optional C c = 1; }\n", `public "c.proto"`),
				"c.proto": p2("p", "message C { optional int32 x = 1; }\n"),
			},
			request: [][]string{{"a.proto"}, {"a.proto", "c.proto"}},
			pbQuick: 2, pbThor: 3,
		},
		{
			name: "shared-dep",
			files: fileSet{
				"r1.proto": p2("p", "message R1 { optional D d = 1; }\nextend D { optional int32 e1 = 100; }\n", `"d.proto"`),
				"r2.proto": p2("p", "message R2 { optional D d = 1; }\nextend D { optional int32 e2 = 101; }\n", `"d.proto"`),
				"d.proto":  p2("p", "message D { optional int32 x = 1; extensions 100 to 200; }\n"),
			},
			request: [][]string{{"r1.proto", "r2.proto"}},
			pbQuick: 2, pbThor: 3,
		},
		{
			name: "desc-dep-with-extension",
			files: fileSet{
				"r1.proto":  p2("p", "message R1 { optional ext.Base b = 1; }\n", `"ext.proto"`),
				"r2.proto":  p2("p", "message R2 { optional ext.Base b = 1; }\n", `"ext.proto"`),
				"ext.proto": p2("ext", "message Base { optional int32 x = 1; extensions 100 to 200; }\nextend Base { optional int32 e = 100; }\n"),
			},
			descs:   []string{"ext.proto"},
			request: [][]string{{"r1.proto", "r2.proto"}},
			pbQuick: 2, pbThor: 3,
		},
		{
			// the resolver supplies its own google/protobuf/descriptor.proto as source: files that do
			// not import it depend on it implicitly (compiler.go asFile, wantsDescriptorProto)
			name: "override-descriptor",
			files: fileSet{
				"a.proto": "syntax = \"proto2\";\npackage p;\noption java_package = \"x\";\nmessage A { optional int32 x = 1; }\n",
				"b.proto": "syntax = \"proto2\";\npackage q;\nimport \"a.proto\";\nmessage B { optional p.A a = 1; }\n",
				"google/protobuf/descriptor.proto": minimalDescriptorProto,
			},
			request: [][]string{{"a.proto"}, {"a.proto", "b.proto"}},
			pbQuick: 2, pbThor: 3,
		},
		{
			name: "symbol-collision",
			files: fileSet{
				"r1.proto": p2("p", "message Same { optional int32 x = 1; }\n"),
				"r2.proto": p2("p", "message Same { optional int32 y = 1; }\n"),
				"r3.proto": p2("p", "message Other { optional int32 y = 1; }\n"),
			},
			request:  [][]string{{"r1.proto", "r2.proto"}, {"r1.proto", "r2.proto", "r3.proto"}},
			mustFail: true,
			pbQuick:  2, pbThor: 3,
		},
		{
			name: "ext-collision",
			files: fileSet{
				"r1.proto": p2("p", "extend D { optional int32 e1 = 100; }\n", `"d.proto"`),
				"r2.proto": p2("p", "extend D { optional int32 e2 = 100; }\n", `"d.proto"`),
				"d.proto":  p2("p", "message D { optional int32 x = 1; extensions 100 to 200; }\n"),
			},
			request:  [][]string{{"r1.proto", "r2.proto"}},
			mustFail: true,
			pbQuick:  2, pbThor: 3,
		},
	}
}

func runC05(h *hx.H) {
	h.Rule = "import-graph scenarios (chain, diamond, fan-out, public re-export, shared dependency, a resolver that supplies its own descriptor.proto as source, colliding roots) x MaxParallelism 1..3 x every permutation of the requested names x all schedules within the preemption bound; oracle: success flag and per-file descriptor digests equal the sequential reference run; non-trivial = execution with >=1 deviation reaching a new canonical state"
	h.Assumptions = append(h.Assumptions, "error text and partial results of failed compiles are not compared (which colliding file is blamed legitimately depends on order)")
	for _, sc := range c05Scenarios() {
		for _, req := range sc.request {
			canon := append([]string(nil), req...)
			sort.Strings(canon)
			// reference: parallelism 1, canonical order, no deviation
			ref := tape.Replay(c05Body(sc, canon, 1, "", nil), nil)
			if ref.Failure != "" {
				h.Violate(ref.Sig, fmt.Sprintf("C05/%s/ref", sc.name), ref.Failure, nil)
				continue
			}
			want := ref.Outcome
			if sc.mustFail && want != "fail" {
				h.Violate("collision-accepted", fmt.Sprintf("C05/%s/ref", sc.name), "reference compile of colliding files succeeded", nil)
			}
			for _, order := range perms(req) {
				for par := 1; par <= 3; par++ {
					if h.Expired() || h.TooMany() {
						return
					}
					pb := sc.pbQuick
					if h.Thorough() {
						pb = sc.pbThor
					}
					name := fmt.Sprintf("C05/%s/req%v/par%d", sc.name, order, par)
					split := 0
					if h.Thorough() && len(sc.files) >= 4 {
						split = 2
					}
					h.Explore(hx.Scn{Name: name, Bounds: tape.B(pb, 0, 0, 1), Prune: true, Split: split, Body: c05Body(sc, order, par, want, canon)})
				}
			}
		}
	}
}

func c05Body(sc c05scn, order []string, par int, want string, canon []string) func(r *tape.Run) {
	descs := builtDescs(sc)
	return func(r *tape.Run) {
		rep := &recReporter{abortAt: -1}
		res := &memResolver{files: sc.files}
		if len(descs) > 0 {
			res.before = func(path string, _ int) (*protocompile.SearchResult, error, bool) {
				if d, ok := descs[path]; ok {
					return &protocompile.SearchResult{Desc: d}, nil, true
				}
				return nil, nil, false
			}
		}
		o := runCompile(r, res, rep, par, nil, order, nil)
		if o.err != nil {
			r.Outcome = "fail"
		} else {
			r.Outcome = "ok:" + digest(o.files, order)
		}
		if !o.checkContained(r) {
			return
		}
		if o.err == nil {
			for i, f := range o.files {
				if f == nil || f.Path() != order[i] {
					r.Fail("result-order", "result %d is not the requested file %s", i, order[i])
				}
			}
		}
		if want != "" && r.Outcome != want {
			r.Fail("schedule-dependent-output", "outcome %q differs from the sequential reference %q (order %v, parallelism %d, errors %v)", r.Outcome, want, order, par, rep.errs)
		}
	}
}

// builtDescs compiles the listed files once, outside the scheduler, and
// rebuilds them with the Go protobuf runtime, so that the resolver can hand
// them out as plain protoreflect descriptors (the SearchResult.Desc form).
func builtDescs(sc c05scn) map[string]protoreflect.FileDescriptor {
	if len(sc.descs) == 0 {
		return nil
	}
	out := map[string]protoreflect.FileDescriptor{}
	c := protocompile.Compiler{Resolver: &memResolver{files: sc.files}, MaxParallelism: 1}
	fs, err := c.Compile(context.Background(), sc.descs...)
	if err != nil {
		panic(err)
	}
	for _, f := range fs {
		fd, err := protodesc.NewFile(f.(linker.Result).FileDescriptorProto(), protoregistry.GlobalFiles)
		if err != nil {
			panic(err)
		}
		out[f.Path()] = fd
	}
	return out
}

// minimalDescriptorProto is a small stand-in for descriptor.proto that a resolver may supply.
const minimalDescriptorProto = `syntax = "proto2";
package google.protobuf;
message FileOptions { optional string java_package = 1; extensions 1000 to max; }
message MessageOptions { optional bool deprecated = 3; extensions 1000 to max; }
message FieldOptions { optional bool deprecated = 3; extensions 1000 to max; }
`
