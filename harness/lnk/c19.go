package main

import (
	"fmt"
	"strings"

	"google.golang.org/protobuf/proto"

	"github.com/bufbuild/protocompile"
	"github.com/bufbuild/protocompile/internal/zzverif/hx"
)

func init() { props["C19"] = runC19 }

var useNames = []string{"unused", "field-type", "extendee", "rpc-type", "custom-option-name", "extension-in-message-literal", "any-literal-type-url", "only-via-its-public-import"}

func useStmt(k, use int) string {
	switch use {
	case 1:
		return fmt.Sprintf("message UF%d { optional D%d f = 1; }\n", k, k)
	case 2:
		return fmt.Sprintf("extend D%d { optional int32 e%d = 100; }\n", k, k)
	case 3:
		return fmt.Sprintf("service S%d { rpc R(D%d) returns (D%d); }\n", k, k, k)
	case 4:
		return fmt.Sprintf("message UO%d { optional int32 f = 1 [(o%d) = 1]; }\n", k, k)
	case 5:
		return fmt.Sprintf("message UL%d { option (litopt) = { [q.l%d]: 1 }; }\n", k, k)
	case 6:
		return fmt.Sprintf("message UA%d { option (anyopt) = { [type.googleapis.com/q.D%d]: {} }; }\n", k, k)
	case 7:
		return fmt.Sprintf("message UP%d { optional P%d f = 1; }\n", k, k)
	}
	return ""
}

func c19Deps() fileSet {
	fs := fileSet{
		"base.proto": "syntax = \"proto2\";\npackage q;\nimport \"google/protobuf/descriptor.proto\";\nimport \"google/protobuf/any.proto\";\nmessage Lit { extensions 100 to 200; optional int32 plain = 1; }\nextend google.protobuf.MessageOptions { optional Lit litopt = 52000; optional google.protobuf.Any anyopt = 52001; }\n",
	}
	for k := 0; k < 3; k++ {
		fs[fmt.Sprintf("pub%d.proto", k)] = fmt.Sprintf("syntax = \"proto2\";\npackage q;\nmessage P%d {}\n", k)
		fs[fmt.Sprintf("dep%d.proto", k)] = fmt.Sprintf("syntax = \"proto2\";\npackage q;\nimport \"google/protobuf/descriptor.proto\";\nimport \"base.proto\";\nimport public \"pub%d.proto\";\nmessage D%d { extensions 100 to 200; }\nextend google.protobuf.FieldOptions { optional int32 o%d = %d; }\nextend Lit { optional int32 l%d = %d; }\n", k, k, k, 51000+k, k, 100+k)
	}
	return fs
}

type c19Import struct {
	path   string
	public bool
	weak   bool
}

func c19Main(imports []c19Import, body string) string {
	var b strings.Builder
	b.WriteString("syntax = \"proto2\";\npackage q;\n")
	for _, im := range imports {
		if im.public {
			fmt.Fprintf(&b, "import public \"%s\";\n", im.path)
		} else if im.weak {
			fmt.Fprintf(&b, "import weak \"%s\";\n", im.path)
		} else {
			fmt.Fprintf(&b, "import \"%s\";\n", im.path)
		}
	}
	b.WriteString(body)
	return b.String()
}

// C19: unused-import warnings are exact (differential oracle: recompile with the import removed).
func runC19(h *hx.H) {
	h.Rule = "inputs: main.proto with imports dep0, dep1, dep2 (each plain, public or weak) and base.proto; each dep is used in one of 8 ways (not at all, field type, extendee, rpc type, custom option name, extension name inside a message literal, Any type URL inside a message literal, only through the dep's own public import) - all 8^3 * 2^3 = 4096 combinations, in two import orders; oracle: for every non-public import, a warning naming it is reported <=> main.proto with that import deleted still compiles and gives the same descriptor apart from the dependency lists; public imports are never reported; non-trivial = workspace with at least one used and one unused import"
	deps := c19Deps()
	for order := 0; order < 4; order++ { // bit 0: imports in reverse order; bit 1: the non-public ones of dep0/dep1 are `import weak`
		for code := 0; code < 8*8*8*8; code++ {
			idx, run := h.NextN()
			if !run {
				continue
			}
			uses := [3]int{code % 8, code / 8 % 8, code / 64 % 8}
			pubs := code / 512
			checkUnused(h, idx, deps, uses, pubs, order)
		}
	}
}

func checkUnused(h *hx.H, idx int64, deps fileSet, uses [3]int, pubs, order int) {
	h.Eval(1)
	h.State(1)
	var imports []c19Import
	var body strings.Builder
	for k := 0; k < 3; k++ {
		imports = append(imports, c19Import{fmt.Sprintf("dep%d.proto", k), pubs>>k&1 == 1, order&2 != 0 && pubs>>k&1 == 0 && k < 2})
		body.WriteString(useStmt(k, uses[k]))
	}
	imports = append(imports, c19Import{"base.proto", false, false})
	if order&1 == 1 {
		for i, j := 0, len(imports)-1; i < j; i, j = i+1, j-1 {
			imports[i], imports[j] = imports[j], imports[i]
		}
	}
	desc := fmt.Sprintf("uses [%s %s %s] public-mask %d order %d", useNames[uses[0]], useNames[uses[1]], useNames[uses[2]], pubs, order)
	fs := fileSet{}
	for k, v := range deps {
		fs[k] = v
	}
	fs["main.proto"] = c19Main(imports, body.String())
	fail := func(sig, format string, args ...any) {
		h.Violate(sig, hx.CaseID(idx), desc+": "+fmt.Sprintf(format, args...), map[string]any{"main.proto": fs["main.proto"]})
	}
	res := compile(fs, protocompile.SourceInfoNone, "main.proto")
	h.Trans(1)
	if res.err != nil {
		h.Infra = append(h.Infra, fmt.Sprintf("C19 workspace does not compile: %v %v\n%s", res.err, res.errs, fs["main.proto"]))
		return
	}
	h.Trace(1)
	full := protodescProto(res.files[0])
	strip := func(m proto.Message) []byte {
		c := proto.Clone(m)
		r := c.ProtoReflect()
		for _, n := range []string{"dependency", "public_dependency", "weak_dependency"} {
			r.Clear(r.Descriptor().Fields().ByName(protoName(n)))
		}
		b, _ := proto.MarshalOptions{Deterministic: true}.Marshal(c)
		return b
	}
	fullBytes := strip(full)
	warned := func(path string) bool {
		for _, w := range res.warns {
			if strings.Contains(w, "\""+path+"\"") && strings.Contains(w, "not used") {
				return true
			}
		}
		return false
	}
	nUsed, nUnused := 0, 0
	for i, im := range imports {
		if im.public {
			if warned(im.path) {
				fail("unused-warning-for-public-import", "public import %s is reported as unused", im.path)
				return
			}
			continue
		}
		// reference: delete the import and recompile
		var rest []c19Import
		rest = append(rest, imports[:i]...)
		rest = append(rest, imports[i+1:]...)
		fs2 := fileSet{}
		for k, v := range deps {
			fs2[k] = v
		}
		fs2["main.proto"] = c19Main(rest, body.String())
		res2 := compile(fs2, protocompile.SourceInfoNone, "main.proto")
		h.Trans(1)
		removable := res2.err == nil && string(strip(protodescProto(res2.files[0]))) == string(fullBytes)
		if removable {
			nUnused++
		} else {
			nUsed++
		}
		if w := warned(im.path); w != removable {
			how := "field-type"
			if strings.HasPrefix(im.path, "dep") {
				how = useNames[uses[int(im.path[3]-'0')]]
			} else {
				how = "base"
			}
			if w {
				fail("unused-warning-for-needed-import:"+how, "import %s is reported as unused, but without it the file %s", im.path, map[bool]string{true: "compiles to a different descriptor", false: "does not compile"}[res2.err == nil])
			} else {
				fail("no-unused-warning:"+how, "import %s can be removed without changing the result, but no warning names it (warnings: %v)", im.path, res.warns)
			}
			return
		}
	}
	if nUsed > 0 && nUnused > 0 {
		h.NonTrivial++
	}
	if h.WantSample() && nUsed > 1 && nUnused > 0 {
		h.Sample(map[string]any{"case": hx.CaseID(idx), "main.proto": fs["main.proto"], "warnings": res.warns})
	}
}
