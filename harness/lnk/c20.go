package main

import (
	"fmt"
	"math"
	"strings"

	"google.golang.org/protobuf/proto"
	"google.golang.org/protobuf/reflect/protoreflect"
	"google.golang.org/protobuf/types/descriptorpb"
	"google.golang.org/protobuf/types/dynamicpb"

	"github.com/bufbuild/protocompile"
	"github.com/bufbuild/protocompile/internal/zzverif/hx"
	"github.com/bufbuild/protocompile/linker"
)

func init() { props["C20"] = runC20 }

type optType struct {
	name string // field name in OM / suffix of the extension
	typ  string // proto type
}

var optTypes = []optType{
	{"i32", "int32"}, {"i64", "int64"}, {"u32", "uint32"}, {"u64", "uint64"}, {"s32", "sint32"}, {"s64", "sint64"},
	{"f32", "fixed32"}, {"f64", "fixed64"}, {"sf32", "sfixed32"}, {"sf64", "sfixed64"}, {"fl", "float"}, {"db", "double"},
	{"b", "bool"}, {"s", "string"}, {"by", "bytes"}, {"e", "OE"}, {"m", "OM"},
}

type lit struct {
	text string
	kind string // "int", "float", "ident", "string", "aggregate"
	neg  bool
	u    uint64
	f    float64
	id   string
	s    string
	over bool // integer too large for 64 bits: read as a float
}

var optLits = []lit{
	{text: "0", kind: "int"}, {text: "1", kind: "int", u: 1}, {text: "-1", kind: "int", neg: true, u: 1}, {text: "-0", kind: "int", neg: true},
	{text: "2147483647", kind: "int", u: 2147483647}, {text: "2147483648", kind: "int", u: 2147483648}, {text: "-2147483648", kind: "int", neg: true, u: 2147483648}, {text: "-2147483649", kind: "int", neg: true, u: 2147483649},
	{text: "4294967295", kind: "int", u: 4294967295}, {text: "4294967296", kind: "int", u: 4294967296},
	{text: "9223372036854775807", kind: "int", u: 9223372036854775807}, {text: "9223372036854775808", kind: "int", u: 9223372036854775808}, {text: "-9223372036854775808", kind: "int", neg: true, u: 9223372036854775808},
	{text: "18446744073709551615", kind: "int", u: 18446744073709551615}, {text: "18446744073709551616", kind: "float", f: 18446744073709551616, over: true},
	{text: "0x10", kind: "int", u: 16}, {text: "010", kind: "int", u: 8}, {text: "-0x10", kind: "int", neg: true, u: 16},
	{text: "1.5", kind: "float", f: 1.5}, {text: "-1.5", kind: "float", neg: true, f: 1.5}, {text: "1e40", kind: "float", f: 1e40}, {text: "-1e40", kind: "float", neg: true, f: 1e40}, {text: "1e-50", kind: "float", f: 1e-50}, {text: "16777217.0", kind: "float", f: 16777217},
	{text: "inf", kind: "ident", id: "inf"}, {text: "-inf", kind: "ident", neg: true, id: "inf"}, {text: "nan", kind: "ident", id: "nan"}, {text: "-nan", kind: "ident", neg: true, id: "nan"},
	{text: "true", kind: "ident", id: "true"}, {text: "false", kind: "ident", id: "false"}, {text: "OE1", kind: "ident", id: "OE1"}, {text: "foo", kind: "ident", id: "foo"}, {text: "-foo", kind: "ident", neg: true, id: "foo"},
	{text: "\"s\"", kind: "string", s: "s"}, {text: "'s' \"t\"", kind: "string", s: "st"}, {text: "\"\\xff\"", kind: "string", s: "\xff"}, {text: "\"\"", kind: "string", s: ""},
	{text: "{ i32: 1 }", kind: "aggregate"}, {text: "{ }", kind: "aggregate"},
}

// expectTop is the reference model of OptionInterpreter::SetOptionValue for a statement `(ext) = L`
// or `(ext).field = L`. It returns reject, or the value as Go value (int64/uint64/float64/float32/
// bool/string/[]byte/int32 enum number), or unknown.
func expectTop(typ string, l lit) (verdict string, val any) {
	intRange := func(min int64, max uint64) (string, any) {
		if l.kind != "int" {
			return "reject", nil
		}
		if l.neg {
			if l.u > uint64(-(min + 1))+1 {
				return "reject", nil
			}
			return "accept", -int64(l.u-1) - 1
		}
		if l.u > max {
			return "reject", nil
		}
		return "accept", int64(l.u)
	}
	uintRange := func(max uint64) (string, any) {
		if l.kind != "int" || l.neg || l.u > max {
			return "reject", nil
		}
		return "accept", l.u
	}
	switch typ {
	case "int32", "sint32", "sfixed32":
		return intRange(math.MinInt32, math.MaxInt32)
	case "int64", "sint64", "sfixed64":
		return intRange(math.MinInt64, math.MaxInt64)
	case "uint32", "fixed32":
		return uintRange(math.MaxUint32)
	case "uint64", "fixed64":
		return uintRange(math.MaxUint64)
	case "float", "double":
		var f float64
		switch {
		case l.kind == "int":
			f = float64(l.u)
		case l.kind == "float":
			f = l.f
		case l.kind == "ident" && l.id == "inf":
			f = math.Inf(1)
		case l.kind == "ident" && l.id == "nan":
			f = math.NaN()
		default:
			return "reject", nil
		}
		if l.neg {
			f = -f
		}
		if typ == "float" {
			return "accept", float32(f)
		}
		return "accept", f
	case "bool":
		if l.kind == "ident" && !l.neg && (l.id == "true" || l.id == "false") {
			return "accept", l.id == "true"
		}
		return "reject", nil
	case "string":
		if l.kind == "string" {
			if strings.Contains(l.s, "\xff") {
				return "unknown", nil // invalid UTF-8 in a proto2 string option
			}
			return "accept", l.s
		}
		return "reject", nil
	case "bytes":
		if l.kind == "string" {
			return "accept", []byte(l.s)
		}
		return "reject", nil
	case "OE":
		if l.kind == "ident" && !l.neg {
			switch l.id {
			case "OE0", "OE1", "OE2":
				return "accept", int32(l.id[2] - '0')
			}
		}
		return "reject", nil
	case "OM":
		if l.kind == "aggregate" {
			return "accept-message", nil
		}
		return "reject", nil
	}
	return "unknown", nil
}

// expectAgg is the reference model of text-format parsing of `{ field: L }` (TextFormat::Parser):
// only the cases that are certain are decided.
func expectAgg(typ string, l lit) (string, any) {
	switch typ {
	case "bool":
		switch {
		case l.kind == "ident" && !l.neg && (l.id == "true" || l.id == "false"):
			return "accept", l.id == "true"
		case l.kind == "int" && !l.neg && l.u <= 1 && (l.text == "0" || l.text == "1"):
			return "accept", l.u == 1
		case l.kind == "string" || l.kind == "float" || l.kind == "aggregate":
			return "reject", nil
		}
		return "unknown", nil
	case "OE":
		switch {
		case l.kind == "ident" && !l.neg && len(l.id) == 3 && strings.HasPrefix(l.id, "OE"):
			return "accept", int32(l.id[2] - '0')
		case l.kind == "int" && !l.neg && l.u <= 2:
			return "accept", int32(l.u) // text format accepts enum numbers
		case l.kind == "string" || l.kind == "float" || l.kind == "aggregate":
			return "reject", nil
		case l.kind == "ident":
			return "reject", nil
		}
		return "unknown", nil
	case "float", "double":
		if l.kind == "ident" {
			if l.id == "inf" || l.id == "nan" {
				return expectTop(typ, l)
			}
			return "unknown", nil // infinity, Inf, ... are accepted by text format too
		}
		return expectTop(typ, l)
	case "uint32", "fixed32", "uint64", "fixed64":
		if l.kind == "int" && l.neg {
			return "reject", nil
		}
		return expectTop(typ, l)
	case "OM":
		if l.kind == "aggregate" {
			return "accept-message", nil
		}
		return "reject", nil
	}
	return expectTop(typ, l)
}

func c20Schema() string {
	var b strings.Builder
	b.WriteString("syntax = \"proto2\";\npackage o;\nimport \"google/protobuf/descriptor.proto\";\nenum OE { OE0 = 0; OE1 = 1; OE2 = 2; }\nmessage OM {\n")
	for i, t := range optTypes {
		fmt.Fprintf(&b, "  optional %s %s = %d;\n", t.typ, t.name, i+1)
	}
	b.WriteString("  repeated int32 ri = 30;\n  extensions 100 to 200;\n}\nextend OM { optional int32 ome = 100; }\n")
	for ti, target := range []string{"FieldOptions", "MessageOptions"} {
		p := "xy"[ti : ti+1]
		fmt.Fprintf(&b, "extend google.protobuf.%s {\n", target)
		for i, t := range optTypes {
			fmt.Fprintf(&b, "  optional %s %s_%s = %d;\n", t.typ, p, t.name, 50001+i)
		}
		fmt.Fprintf(&b, "  repeated int32 %s_ri = 50030;\n  repeated OM %s_rm = 50031;\n}\n", p, p)
	}
	return b.String()
}

// C20: option values are interpreted like protoc.
func runC20(h *hx.H) {
	h.Rule = "inputs: a custom option of each of 17 types (15 scalar types, an enum, a message) on field and on message level x 39 literals (integer boundaries of 32 and 64 bits in decimal, hex and octal, -0, floats incl. float32 overflow and underflow, inf/nan with and without sign, booleans, enum value names, unknown identifiers, strings incl. adjacent literals and invalid UTF-8, aggregates) x four statement shapes on field and message level (`(ext) = L`; path `(msg_ext).field = L`; aggregate `(msg_ext) = { field: L }`; aggregate with list `ri: [L, L]`), plus, for each of the nine element kinds, a standard option, a custom scalar and a path into a custom message option in all six orders (for extension ranges with one, two and three ranges sharing the option list), plus, for each of the nine element kinds and each target type (and each pair of target types), an option field that declares `targets`, set directly, through a path and inside an aggregate (allowed iff the element's kind is among the targets), plus all ordered pairs of statements on one option (set twice, path then aggregate, repeated twice, two paths into one message) for a subset; oracle: reference model of protoc's OptionInterpreter::SetOptionValue and of the certain part of the text-format rules (DESIGN Appendix D): accept/reject and the stored value read back from the compiled options message; on success no uninterpreted_option remains; non-trivial = statement the reference rejects, or a value that needed a conversion"
	h.Assumptions = append(h.Assumptions, "protoc itself is not available: the oracle is a reference model of its option interpreter; for `targets`, protoc's ValidateTargetConstraints is taken to apply in every syntax, to the option field itself, to every field on a path and to every field set inside an aggregate; text-format corner cases the model is not sure about (identifier forms of floats and booleans in aggregates, invalid UTF-8) are UNKNOWN and never alarm")
	schema := c20Schema()
	for ti, t := range optTypes {
		for li, l := range optLits {
			for shape := 0; shape < 4; shape++ {
				for level := 0; level < 2; level++ {
					idx, run := h.NextN()
					if !run {
						continue
					}
					checkOption(h, idx, schema, ti, t, li, l, shape, level)
				}
			}
		}
	}
	// every element kind: a standard option, a custom scalar and a custom message path, in every order
	for ki := range kindSpecs {
		for perm := 0; perm < 6; perm++ {
			for n := 1; n <= 3; n++ {
				if kindSpecs[ki].name != "extension-range" && n > 1 {
					continue
				}
				idx, run := h.NextN()
				if !run {
					continue
				}
				checkKind(h, idx, ki, perm, n)
			}
		}
	}
	// `targets` of option fields: every element kind x every declared target type (one or two),
	// for an option set directly, through a path into a message option and inside an aggregate
	for ki := range kindSpecs {
		for form := 0; form < 4; form++ {
			for t1 := range targetTypes {
				for t2 := range targetTypes {
					if form != 1 && t2 != 0 {
						continue
					}
					idx, run := h.NextN()
					if !run {
						continue
					}
					checkTargets(h, idx, ki, form, t1, t2)
				}
			}
		}
	}
	// pairs of statements on one option
	for i, a := range pairStmts {
		for j, b := range pairStmts {
			idx, run := h.NextN()
			if !run {
				continue
			}
			checkOptionPair(h, idx, schema, i, a, j, b)
		}
	}
}

// pstmt is one option statement for the pair enumeration: its name path, whether the innermost
// field is repeated, and (for an aggregate value) the paths of the fields set inside it.
type pstmt struct {
	text     string
	path     []string
	repeated bool
	sets     [][]string // leaf paths set inside an aggregate value (relative to path)
	invalid  bool       // rejected on its own (unknown field, path through a scalar or repeated field)
}

var pairStmts = []pstmt{
	{text: "(o.x_i32) = 1", path: []string{"x_i32"}},
	{text: "(o.x_i32) = 2", path: []string{"x_i32"}},
	{text: "(o.x_m).i32 = 1", path: []string{"x_m", "i32"}},
	{text: "(o.x_m).i32 = 2", path: []string{"x_m", "i32"}},
	{text: "(o.x_m).s = \"a\"", path: []string{"x_m", "s"}},
	{text: "(o.x_m) = { i32: 3 }", path: []string{"x_m"}, sets: [][]string{{"i32"}}},
	{text: "(o.x_m) = { s: \"b\" }", path: []string{"x_m"}, sets: [][]string{{"s"}}},
	{text: "(o.x_m).m.i32 = 1", path: []string{"x_m", "m", "i32"}},
	{text: "(o.x_m).m.s = \"c\"", path: []string{"x_m", "m", "s"}},
	{text: "(o.x_m).m = { i32: 4 }", path: []string{"x_m", "m"}, sets: [][]string{{"i32"}}},
	{text: "(o.x_m) = { m { s: \"d\" } }", path: []string{"x_m"}, sets: [][]string{{"m"}, {"m", "s"}}},
	{text: "(o.x_ri) = 1", path: []string{"x_ri"}, repeated: true},
	{text: "(o.x_ri) = 2", path: []string{"x_ri"}, repeated: true},
	{text: "(o.x_m).ri = 1", path: []string{"x_m", "ri"}, repeated: true},
	{text: "(o.x_m).ri = 2", path: []string{"x_m", "ri"}, repeated: true},
	{text: "(o.x_m) = { ri: [5, 6] }", path: []string{"x_m"}, sets: [][]string{{"ri"}}},
	{text: "(o.x_m).(o.ome) = 7", path: []string{"x_m", "ome"}},
	{text: "(o.x_m).(o.ome) = 8", path: []string{"x_m", "ome"}},
	{text: "(o.x_rm) = { i32: 1 }", path: []string{"x_rm"}, repeated: true, sets: [][]string{{"i32"}}},
	{text: "(o.x_rm) = { i32: 2 }", path: []string{"x_rm"}, repeated: true, sets: [][]string{{"i32"}}},
	{text: "(o.x_rm).i32 = 3", path: []string{"x_rm", "i32"}, invalid: true},
	{text: "deprecated = true", path: []string{"deprecated"}},
	{text: "deprecated = false", path: []string{"deprecated"}},
	{text: "(o.x_i32).zz = 1", path: []string{"x_i32", "zz"}, invalid: true},
	{text: "(o.x_m).zz = 1", path: []string{"x_m", "zz"}, invalid: true},
}

func hasPrefix(p, q []string) bool {
	if len(q) > len(p) {
		return false
	}
	for i := range q {
		if p[i] != q[i] {
			return false
		}
	}
	return true
}

// alreadySet models protoc's ExamineIfOptionIsSet for statement b coming after statement a: b is
// rejected iff its innermost field is not repeated and a stored a value exactly there - through
// the same path, through an aggregate at a prefix of the path that sets it, or through a longer
// path that runs through it.
func alreadySet(a, b pstmt) bool {
	if b.repeated {
		return false
	}
	if hasPrefix(a.path, b.path) {
		return true // a set this very field, or something inside the message b now sets as a whole
	}
	if hasPrefix(b.path, a.path) && a.sets != nil && !a.repeated {
		rest := b.path[len(a.path):]
		for _, s := range a.sets {
			if hasPrefix(s, rest) {
				return true
			}
		}
	}
	return false
}

func shapeStmt(t optType, l lit, shape int) string {
	switch shape {
	case 0:
		return fmt.Sprintf("(o.x_%s) = %s", t.name, l.text)
	case 1:
		return fmt.Sprintf("(o.x_m).%s = %s", t.name, l.text)
	case 2:
		return fmt.Sprintf("(o.x_m) = { %s: %s }", t.name, l.text)
	}
	return fmt.Sprintf("(o.x_m) = { ri: [1] %s: %s ri: 2 }", t.name, l.text)
}

func c20Main(level int, stmts ...string) string {
	if level == 0 {
		return "syntax = \"proto2\";\npackage q;\nimport \"opt.proto\";\nmessage M {\n  optional int32 f = 1 [" + strings.Join(stmts, ", ") + "];\n}\n"
	}
	var b strings.Builder
	b.WriteString("syntax = \"proto2\";\npackage q;\nimport \"opt.proto\";\nmessage M {\n")
	for _, s := range stmts {
		b.WriteString("  option " + strings.ReplaceAll(s, "(o.x_", "(o.y_") + ";\n")
	}
	b.WriteString("  optional int32 f = 1;\n}\n")
	return b.String()
}

// readOption decodes the options message of the element and returns it as a dynamic message
// whose extensions are known.
func readOptions(file linker.File, level int) (protoreflect.Message, int) {
	fd := protodescProto(file)
	var raw proto.Message
	if level == 0 {
		raw = fd.MessageType[0].Field[0].Options
	} else {
		raw = fd.MessageType[0].Options
	}
	if raw == nil || !raw.ProtoReflect().IsValid() {
		return nil, 0
	}
	data, _ := proto.Marshal(raw)
	md := raw.ProtoReflect().Descriptor()
	dm := dynamicpb.NewMessage(md)
	if err := (proto.UnmarshalOptions{Resolver: linker.ResolverFromFile(file)}).Unmarshal(data, dm); err != nil {
		return nil, 0
	}
	nUnint := 0
	if f := md.Fields().ByName("uninterpreted_option"); f != nil {
		nUnint = dm.Get(f).List().Len()
	}
	return dm, nUnint
}

func findExt(file linker.File, name string) protoreflect.ExtensionType {
	xt, err := linker.ResolverFromFile(file).FindExtensionByName(protoreflect.FullName(name))
	if err != nil {
		return nil
	}
	return xt
}

func valueString(v any) string {
	switch v := v.(type) {
	case float64:
		if v != v {
			v = math.NaN() // the sign of a NaN is not compared
		}
		return fmt.Sprintf("f64:%x", math.Float64bits(v))
	case float32:
		if v != v {
			v = float32(math.NaN())
		}
		return fmt.Sprintf("f32:%x", math.Float32bits(v))
	case []byte:
		return fmt.Sprintf("bytes:%x", v)
	case int32:
		return fmt.Sprintf("enum:%d", v)
	}
	return fmt.Sprintf("%T:%v", v, v)
}

func reflValue(fd protoreflect.FieldDescriptor, v protoreflect.Value) string {
	switch fd.Kind() {
	case protoreflect.DoubleKind:
		f := v.Float()
		if math.IsNaN(f) {
			f = math.NaN()
		}
		return fmt.Sprintf("f64:%x", math.Float64bits(f))
	case protoreflect.FloatKind:
		f := float32(v.Float())
		if f != f {
			f = float32(math.NaN())
		}
		return fmt.Sprintf("f32:%x", math.Float32bits(f))
	case protoreflect.BytesKind:
		return fmt.Sprintf("bytes:%x", v.Bytes())
	case protoreflect.EnumKind:
		return fmt.Sprintf("enum:%d", v.Enum())
	case protoreflect.Int32Kind, protoreflect.Sint32Kind, protoreflect.Sfixed32Kind, protoreflect.Int64Kind, protoreflect.Sint64Kind, protoreflect.Sfixed64Kind:
		return fmt.Sprintf("int64:%v", v.Int())
	case protoreflect.Uint32Kind, protoreflect.Fixed32Kind, protoreflect.Uint64Kind, protoreflect.Fixed64Kind:
		return fmt.Sprintf("uint64:%v", v.Uint())
	case protoreflect.BoolKind:
		return fmt.Sprintf("bool:%v", v.Bool())
	case protoreflect.StringKind:
		return fmt.Sprintf("string:%v", v.String())
	}
	return fmt.Sprint(v)
}

func checkOption(h *hx.H, idx int64, schema string, ti int, t optType, li int, l lit, shape, level int) {
	h.Eval(1)
	h.State(1)
	h.Trans(1)
	stmt := shapeStmt(t, l, shape)
	desc := fmt.Sprintf("%s option, statement `%s`", []string{"field", "message"}[level], stmt)
	fail := func(sig, format string, args ...any) {
		h.Violate(sig, hx.CaseID(idx), desc+": "+fmt.Sprintf(format, args...), nil)
	}
	var verdict string
	var want any
	if shape <= 1 {
		verdict, want = expectTop(t.typ, l)
	} else {
		verdict, want = expectAgg(t.typ, l)
	}
	if (shape == 1 || shape >= 2) && t.name == "m" && verdict == "accept-message" {
		// (x_m).m = {..} / { m: {..} } - nested message, fine
	}
	fs := fileSet{"opt.proto": schema, "main.proto": c20Main(level, stmt)}
	res := compileC20(h, idx, fs, "main.proto")
	h.Trace(1)
	if verdict == "unknown" {
		h.Count("model_unknown", 1)
		return
	}
	if verdict == "reject" || want != nil && fmt.Sprint(want) != l.text {
		h.NonTrivial++
	}
	accepted := res.err == nil
	class := fmt.Sprintf("%s:%s:%s", t.typ, l.kind, []string{"direct", "path", "aggregate", "aggregate-with-list"}[shape])
	if accepted != (verdict != "reject") {
		if accepted {
			fail("option-accepted:"+class, "the reference model rejects but the compiler accepts")
		} else {
			fail("option-rejected:"+class, "the reference model accepts (%v) but the compiler rejects: %s", want, first(res.errs))
		}
		return
	}
	if !accepted {
		return
	}
	opts, nUnint := readOptions(res.files[0], level)
	if opts == nil {
		fail("option-not-stored:"+class, "the options message is empty or does not decode")
		return
	}
	if nUnint != 0 {
		fail("uninterpreted-option-remains", "%d uninterpreted options remain after a successful compile", nUnint)
		return
	}
	if verdict == "accept-message" {
		return
	}
	// locate the value
	var holder protoreflect.Message = opts
	var fd protoreflect.FieldDescriptor
	if shape == 0 {
		xt := findExt(res.files[0], "o."+"xy"[level:level+1]+"_"+t.name)
		if xt == nil || !opts.Has(xt.TypeDescriptor()) {
			fail("option-not-stored:"+class, "extension o.x_%s is not set", t.name)
			return
		}
		fd = xt.TypeDescriptor()
	} else {
		xt := findExt(res.files[0], "o."+"xy"[level:level+1]+"_m")
		if xt == nil || !opts.Has(xt.TypeDescriptor()) {
			fail("option-not-stored:"+class, "extension o.x_m is not set")
			return
		}
		holder = opts.Get(xt.TypeDescriptor()).Message()
		fd = holder.Descriptor().Fields().ByName(protoreflect.Name(t.name))
		if fd == nil || !holder.Has(fd) {
			fail("option-not-stored:"+class, "field %s of o.x_m is not set", t.name)
			return
		}
		if shape == 3 {
			ri := holder.Descriptor().Fields().ByName("ri")
			if l := holder.Get(ri).List(); l.Len() != 2 || l.Get(0).Int() != 1 || l.Get(1).Int() != 2 {
				fail("option-list-value", "ri should be [1 2], is %v", holder.Get(ri))
				return
			}
		}
	}
	got := reflValue(fd, holder.Get(fd))
	exp := valueString(want)
	if _, isInt := want.(int64); isInt {
		exp = fmt.Sprintf("int64:%v", want)
	}
	if got != exp {
		fail("option-value:"+class, "stored value %s, reference %s", got, exp)
		return
	}
	if h.WantSample() && fmt.Sprint(want) != l.text && shape == 2 {
		h.Sample(map[string]any{"case": hx.CaseID(idx), "statement": stmt, "stored": got})
	}
}

// checkOptionPair: two statements on one field, in order.
func checkOptionPair(h *hx.H, idx int64, schema string, i int, a pstmt, j int, b pstmt) {
	h.Eval(1)
	h.State(1)
	h.Trans(1)
	desc := fmt.Sprintf("statements `%s` then `%s`", a.text, b.text)
	fs := fileSet{"opt.proto": schema, "main.proto": c20Main(0, a.text, b.text)}
	res := compileC20(h, idx, fs, "main.proto")
	h.Trace(1)
	conflict := a.invalid || b.invalid || alreadySet(a, b)
	h.NonTrivial++
	accepted := res.err == nil
	if accepted == conflict {
		sig := "option-pair-accepted"
		if !accepted {
			sig = "option-pair-rejected"
		}
		h.Violate(sig+":"+pairClass(a.text, b.text), hx.CaseID(idx), fmt.Sprintf("%s: reference says conflict=%v, compiler accepted=%v (%s)", desc, conflict, accepted, first(res.errs)), nil)
		return
	}
	if accepted {
		if _, n := readOptions(res.files[0], 0); n != 0 {
			h.Violate("uninterpreted-option-remains", hx.CaseID(idx), desc+": uninterpreted options remain", nil)
		}
	}
	_ = descriptorpb.FieldOptions{}
}

func pairClass(a, b string) string {
	k := func(s string) string {
		switch {
		case strings.Contains(s, ".zz"):
			return "unknown-field"
		case strings.HasPrefix(s, "(o.x_rm)"):
			return "repeated-message"
		case strings.Contains(s, "ri"):
			return "repeated"
		case strings.Count(s, ".") >= 3:
			return "deep-path"
		case strings.Contains(s, ")."):
			return "path"
		case strings.HasPrefix(s, "("):
			return "extension"
		}
		return "builtin"
	}
	return k(a) + "+" + k(b)
}

type kindSpec struct {
	name, target, std string // std: a standard option statement for this kind ("" if none)
	prefix            string
}

var kindSpecs = []kindSpec{
	{"file", "FileOptions", "java_package = \"x\"", "kf"}, {"message", "MessageOptions", "deprecated = true", "km"},
	{"field", "FieldOptions", "deprecated = true", "kd"}, {"oneof", "OneofOptions", "", "ko"},
	{"extension-range", "ExtensionRangeOptions", "verification = UNVERIFIED", "kr"}, {"enum", "EnumOptions", "deprecated = true", "ke"},
	{"enum-value", "EnumValueOptions", "deprecated = true", "kv"}, {"service", "ServiceOptions", "deprecated = true", "ks"},
	{"method", "MethodOptions", "deprecated = true", "kt"},
}

func kindSchema() string {
	var b strings.Builder
	b.WriteString("syntax = \"proto2\";\npackage o;\nimport \"google/protobuf/descriptor.proto\";\nmessage KM { optional int32 i32 = 1; optional string s = 2; }\n")
	for _, k := range kindSpecs {
		fmt.Fprintf(&b, "extend google.protobuf.%s { optional int32 %s_i = 50001; optional KM %s_m = 50002; optional int32 %s_j = 50003; }\n", k.target, k.prefix, k.prefix, k.prefix)
	}
	return b.String()
}

var perms3 = [6][3]int{{0, 1, 2}, {0, 2, 1}, {1, 0, 2}, {1, 2, 0}, {2, 0, 1}, {2, 1, 0}}

// checkKind: one element of the given kind carries a standard option, a custom scalar and a path
// into a custom message option, in the given order (n extension ranges share the statement list).
func checkKind(h *hx.H, idx int64, ki, perm, n int) {
	h.Eval(1)
	h.State(1)
	h.Trans(1)
	k := kindSpecs[ki]
	three := []string{k.std, fmt.Sprintf("(o.%s_i) = 7", k.prefix), fmt.Sprintf("(o.%s_m).i32 = 1", k.prefix)}
	if k.std == "" {
		three[0] = fmt.Sprintf("(o.%s_j) = 9", k.prefix)
	}
	var stmts []string
	for _, i := range perms3[perm] {
		stmts = append(stmts, three[i])
	}
	compactList := "[" + strings.Join(stmts, ", ") + "]"
	var optLines strings.Builder
	for _, s := range stmts {
		optLines.WriteString("option " + s + "; ")
	}
	ranges := []string{"100 to 199", "300 to 399", "500"}[:n]
	body := map[string]string{
		"file":            "%OPTS% message M { optional int32 f = 1; }",
		"message":         "message M { %OPTS% optional int32 f = 1; }",
		"field":           "message M { optional int32 f = 1 %COMPACT%; }",
		"oneof":           "message M { oneof o { %OPTS% int32 f = 1; } }",
		"extension-range": "message M { extensions " + strings.Join(ranges, ", ") + " %COMPACT%; }",
		"enum":            "enum E { %OPTS% V = 0; }",
		"enum-value":      "enum E { V = 0 %COMPACT%; }",
		"service":         "message M {} service S { %OPTS% rpc R(M) returns (M); }",
		"method":          "message M {} service S { rpc R(M) returns (M) { %OPTS% } }",
	}[k.name]
	src := "syntax = \"proto2\";\npackage q;\nimport \"kinds.proto\";\n" + strings.NewReplacer("%OPTS%", optLines.String(), "%COMPACT%", compactList).Replace(body) + "\n"
	desc := fmt.Sprintf("%s with options %v (%d range(s))", k.name, stmts, n)
	fail := func(sig, format string, args ...any) {
		h.Violate(sig, hx.CaseID(idx), desc+": "+fmt.Sprintf(format, args...), map[string]any{"source": src})
	}
	res := compileC20(h, idx, fileSet{"kinds.proto": kindSchema(), "main.proto": src}, "main.proto")
	h.Trace(1)
	h.NonTrivial++
	if res.err != nil {
		fail("element-options-rejected:"+k.name, "the compiler rejects: %s", first(res.errs))
		return
	}
	fd := protodescProto(res.files[0])
	var raws []proto.Message
	switch k.name {
	case "file":
		raws = append(raws, fd.Options)
	case "message":
		raws = append(raws, fd.MessageType[0].Options)
	case "field":
		raws = append(raws, fd.MessageType[0].Field[0].Options)
	case "oneof":
		raws = append(raws, fd.MessageType[0].OneofDecl[0].Options)
	case "extension-range":
		for _, r := range fd.MessageType[0].ExtensionRange {
			raws = append(raws, r.Options)
		}
	case "enum":
		raws = append(raws, fd.EnumType[0].Options)
	case "enum-value":
		raws = append(raws, fd.EnumType[0].Value[0].Options)
	case "service":
		raws = append(raws, fd.Service[0].Options)
	case "method":
		raws = append(raws, fd.Service[0].Method[0].Options)
	}
	if len(raws) != n {
		fail("element-options-count:"+k.name, "%d elements, expected %d", len(raws), n)
		return
	}
	resolver := linker.ResolverFromFile(res.files[0])
	for ri, raw := range raws {
		if raw == nil || !raw.ProtoReflect().IsValid() {
			fail("element-options-missing:"+k.name, "element %d has no options", ri)
			return
		}
		data, _ := proto.Marshal(raw)
		dm := dynamicpb.NewMessage(raw.ProtoReflect().Descriptor())
		if err := (proto.UnmarshalOptions{Resolver: resolver}).Unmarshal(data, dm); err != nil {
			fail("element-options-decode:"+k.name, "element %d: %v", ri, err)
			return
		}
		if f := dm.Descriptor().Fields().ByName("uninterpreted_option"); f != nil && dm.Get(f).List().Len() != 0 {
			fail("uninterpreted-option-remains", "element %d keeps %d uninterpreted options", ri, dm.Get(f).List().Len())
			return
		}
		get := func(name string) (protoreflect.Value, bool) {
			xt, err := resolver.FindExtensionByName(protoreflect.FullName(name))
			if err != nil || !dm.Has(xt.TypeDescriptor()) {
				return protoreflect.Value{}, false
			}
			return dm.Get(xt.TypeDescriptor()), true
		}
		if v, ok := get("o." + k.prefix + "_i"); !ok || v.Int() != 7 {
			fail("element-option-value:"+k.name, "element %d: (o.%s_i) should be 7, is %v (set=%v)", ri, k.prefix, v, ok)
			return
		}
		if v, ok := get("o." + k.prefix + "_m"); !ok || v.Message().Get(v.Message().Descriptor().Fields().ByName("i32")).Int() != 1 {
			fail("element-option-value:"+k.name, "element %d: (o.%s_m).i32 should be 1 (set=%v)", ri, k.prefix, ok)
			return
		}
		if k.std == "" {
			if v, ok := get("o." + k.prefix + "_j"); !ok || v.Int() != 9 {
				fail("element-option-value:"+k.name, "element %d: (o.%s_j) should be 9 (set=%v)", ri, k.prefix, ok)
				return
			}
		} else {
			stdName := protoreflect.Name(strings.TrimSpace(k.std[:strings.Index(k.std, "=")]))
			f := dm.Descriptor().Fields().ByName(stdName)
			if f == nil || !dm.Has(f) {
				fail("element-option-value:"+k.name, "element %d: standard option %s is not set", ri, stdName)
				return
			}
		}
	}
}

// targetTypes[i] is the target type of the element kind kindSpecs[i].
var targetTypes = []string{"FILE", "MESSAGE", "FIELD", "ONEOF", "EXTENSION_RANGE", "ENUM", "ENUM_ENTRY", "SERVICE", "METHOD"}

// checkTargets: an option field that declares `targets` may be set only on an element of one of
// those kinds (descriptor.proto FieldOptions.targets; protoc's ValidateTargetConstraints), whether
// it is the option itself (form 0: one target, form 1: two), a field reached through a path
// (form 2) or a field set inside an aggregate value (form 3).
func checkTargets(h *hx.H, idx int64, ki, form, t1, t2 int) {
	h.Eval(1)
	h.State(1)
	h.Trans(1)
	k := kindSpecs[ki]
	var schema strings.Builder
	schema.WriteString("syntax = \"proto2\";\npackage o;\nimport \"google/protobuf/descriptor.proto\";\n")
	tl := "targets = TARGET_TYPE_" + targetTypes[t1]
	allowed := t1 == ki
	if form == 1 {
		tl += ", targets = TARGET_TYPE_" + targetTypes[t2]
		allowed = allowed || t2 == ki
	}
	var stmt string
	switch form {
	case 0, 1:
		fmt.Fprintf(&schema, "extend google.protobuf.%s { optional int32 t = 50001 [%s]; }\n", k.target, tl)
		stmt = "(o.t) = 7"
	case 2, 3:
		fmt.Fprintf(&schema, "message KT { optional int32 plain = 1; optional int32 t = 2 [%s]; }\nextend google.protobuf.%s { optional KT kt = 50001; }\n", tl, k.target)
		stmt = "(o.kt).t = 7"
		if form == 3 {
			stmt = "(o.kt) = { plain: 1 t: 7 }"
		}
	}
	body := map[string]string{
		"file":            "option %S%; message M { optional int32 f = 1; }",
		"message":         "message M { option %S%; optional int32 f = 1; }",
		"field":           "message M { optional int32 f = 1 [%S%]; }",
		"oneof":           "message M { oneof o { option %S%; int32 f = 1; } }",
		"extension-range": "message M { extensions 100 to 199 [%S%]; }",
		"enum":            "enum E { option %S%; V = 0; }",
		"enum-value":      "enum E { V = 0 [%S%]; }",
		"service":         "message M {} service S { option %S%; rpc R(M) returns (M); }",
		"method":          "message M {} service S { rpc R(M) returns (M) { option %S%; } }",
	}[k.name]
	src := "syntax = \"proto2\";\npackage q;\nimport \"t.proto\";\n" + strings.ReplaceAll(body, "%S%", stmt) + "\n"
	desc := fmt.Sprintf("%s carries `%s` whose field declares [%s]", k.name, stmt, tl)
	res := compileC20(h, idx, fileSet{"t.proto": schema.String(), "main.proto": src}, "main.proto")
	h.Trace(1)
	if t1 != ki {
		h.NonTrivial++
	}
	h.Outcome(fmt.Sprintf("allowed=%v accepted=%v", allowed, res.err == nil))
	switch {
	case allowed && res.err != nil:
		h.Violate("targets-rejects-allowed:"+k.name, hx.CaseID(idx), desc+": the element kind is among the targets but the compiler rejects: "+first(res.errs), map[string]any{"schema": schema.String(), "source": src})
	case !allowed && res.err == nil:
		h.Violate("targets-accepts-forbidden:"+k.name, hx.CaseID(idx), desc+": the element kind is not among the targets but the compiler accepts", map[string]any{"schema": schema.String(), "source": src})
	}
}

// compileC20 compiles and reports a compile that ends in a recovered panic: that is neither
// acceptance nor a diagnosis of the option statement.
func compileC20(h *hx.H, idx int64, fs fileSet, names ...string) *compiled {
	res := compile(fs, protocompile.SourceInfoNone, names...)
	if res.err != nil && strings.Contains(res.err.Error(), "panic handling") {
		h.Violate("compiler-panics", hx.CaseID(idx), "the compile ends with a recovered panic: "+res.err.Error(), map[string]any{"files": map[string]string(fs)})
	}
	return res
}
