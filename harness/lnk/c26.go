package main

import (
	"bytes"
	"fmt"
	"strings"

	"google.golang.org/protobuf/reflect/protodesc"
	"google.golang.org/protobuf/reflect/protoreflect"
	"google.golang.org/protobuf/reflect/protoregistry"

	"github.com/bufbuild/protocompile"
	"github.com/bufbuild/protocompile/internal/zzverif/hx"
)

func init() { props["C26"] = runC26 }

// C26: a bytes default value survives the trip source literal -> descriptor text -> bytes,
// in the compiler's own descriptors and in the Go runtime's.
func runC26(h *hx.H) {
	h.Rule = "inputs: every byte string of length <=2 over all 256 values and of length <=3 (thorough <=4) over a 20-byte alphabet of escape-relevant bytes, each written as the default of a proto2 bytes field in three source spellings (hex escapes, octal escapes, raw bytes where the lexer allows) and compiled 256 fields at a time; oracle: FieldDescriptor.Default().Bytes() of the linker's descriptor and of protodesc.NewFile over the produced FileDescriptorProto both equal the original bytes; non-trivial = string containing a byte that needs escaping"
	var batch [][]byte
	flush := func() {
		if len(batch) == 0 {
			return
		}
		idx, run := h.NextN()
		if run {
			checkBytesBatch(h, idx, batch)
		}
		batch = batch[:0]
	}
	add := func(b []byte) {
		batch = append(batch, append([]byte(nil), b...))
		if len(batch) == 256 {
			flush()
		}
	}
	all := make([]byte, 256)
	for i := range all {
		all[i] = byte(i)
	}
	enumBytes(all, 2, add)
	flush()
	alpha := []byte{'\\', '"', '\'', '?', '0', '7', '8', 'x', 'a', 'n', 0, 1, 0x7f, 0x80, 0xff, ' ', 'u', 'U', '\n', '\t'}
	n := 3
	if h.Thorough() {
		n = 4
	}
	enumBytes(alpha, n, add)
	flush()
}

func enumBytes(alpha []byte, maxLen int, f func(b []byte)) {
	buf := make([]byte, 0, maxLen)
	var rec func()
	rec = func() {
		f(buf)
		if len(buf) == maxLen {
			return
		}
		for _, c := range alpha {
			buf = append(buf, c)
			rec()
			buf = buf[:len(buf)-1]
		}
	}
	rec()
}

func checkBytesBatch(h *hx.H, idx int64, batch [][]byte) {
	for spelling := 0; spelling < 3; spelling++ {
		var src strings.Builder
		src.WriteString("syntax = \"proto2\";\nmessage M {\n")
		for i, b := range batch {
			fmt.Fprintf(&src, "  optional bytes f%d = %d [default = \"", i, i+1)
			for _, c := range b {
				switch {
				case spelling == 0:
					fmt.Fprintf(&src, "\\x%02x", c)
				case spelling == 1:
					fmt.Fprintf(&src, "\\%03o", c)
				case c >= 0x20 && c < 0x7f && c != '"' && c != '\\':
					src.WriteByte(c)
				default:
					fmt.Fprintf(&src, "\\%o", c)
					// a following digit would be read as part of the escape
					src.WriteString("\" \"")
				}
			}
			src.WriteString("\"];\n")
		}
		src.WriteString("}\n")
		h.Eval(int64(len(batch)))
		h.State(int64(len(batch)))
		h.Trans(int64(len(batch)))
		res := compile(fileSet{"t.proto": src.String()}, protocompile.SourceInfoNone, "t.proto")
		if res.err != nil {
			h.Violate("bytes-default-rejected", hx.CaseID(idx), fmt.Sprintf("spelling %d: a file of bytes defaults does not compile: %v (first: %.200v)", spelling, res.err, res.errs), nil)
			return
		}
		h.Trace(int64(len(batch)))
		fd := res.files[0]
		md := fd.Messages().Get(0)
		rt, err := protodesc.NewFile(protodescProto(fd), protoregistry.GlobalFiles)
		if err != nil {
			h.Violate("bytes-default-runtime-rejects", hx.CaseID(idx), fmt.Sprintf("spelling %d: protodesc.NewFile rejects the produced descriptor: %v", spelling, err), nil)
			return
		}
		rmd := rt.Messages().Get(0)
		for i, b := range batch {
			if needsEscape(b) {
				h.NonTrivial++
			}
			f := md.Fields().Get(i)
			if got := f.Default().Bytes(); !bytes.Equal(got, b) || f.Kind() != protoreflect.BytesKind {
				h.Violate("bytes-default-linker", hx.CaseID(idx), fmt.Sprintf("spelling %d: bytes % x: the compiler's descriptor gives default % x (descriptor text %q)", spelling, b, got, protodescProto(fd).MessageType[0].Field[i].GetDefaultValue()), nil)
				return
			}
			if got := rmd.Fields().Get(i).Default().Bytes(); !bytes.Equal(got, b) {
				h.Violate("bytes-default-runtime", hx.CaseID(idx), fmt.Sprintf("spelling %d: bytes % x: the Go runtime decodes descriptor text %q as % x", spelling, b, protodescProto(fd).MessageType[0].Field[i].GetDefaultValue(), got), nil)
				return
			}
		}
		if h.WantSample() && spelling == 0 {
			h.Sample(map[string]any{"case": hx.CaseID(idx), "first_bytes": fmt.Sprintf("% x", batch[len(batch)/2]), "descriptor_text": protodescProto(fd).MessageType[0].Field[len(batch)/2].GetDefaultValue()})
		}
	}
}

func needsEscape(b []byte) bool {
	for _, c := range b {
		if c < 0x20 || c >= 0x7f || c == '"' || c == '\'' || c == '\\' {
			return true
		}
	}
	return false
}
