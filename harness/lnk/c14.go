package main

import (
	"bytes"
	"fmt"
	"math"
	"strconv"
	"strings"
	"unicode/utf8"

	"github.com/bufbuild/protocompile"
	"github.com/bufbuild/protocompile/internal/zzverif/hx"
)

func init() { props["C14"] = runC14 }

// ---- reference model of protoc's tokenizer (io/tokenizer.cc), from DESIGN Appendix C ----

func isOct(c byte) bool { return c >= '0' && c <= '7' }
func isDig(c byte) bool { return c >= '0' && c <= '9' }
func isHex(c byte) bool { return isDig(c) || c >= 'a' && c <= 'f' || c >= 'A' && c <= 'F' }
func hexVal(c byte) int {
	switch {
	case isDig(c):
		return int(c - '0')
	case c >= 'a':
		return int(c-'a') + 10
	}
	return int(c-'A') + 10
}

// refString models ConsumeString + ParseStringAppend for the body between the quotes.
// ok=false: protoc rejects. gap != "": the model declines to decide (adjudication gap).
func refString(body string, quote byte) (out []byte, ok bool, gap string) {
	for i := 0; i < len(body); {
		c := body[i]
		switch {
		case c == 0 || c == '\n':
			return nil, false, ""
		case c == quote:
			return nil, false, "" // not reached from refStringSeq, which cuts the body at the closing quote
		case c != '\\':
			out = append(out, c)
			i++
		default:
			i++
			if i >= len(body) {
				return nil, false, "" // backslash escapes the closing quote: unterminated
			}
			e := body[i]
			switch {
			case strings.IndexByte("abfnrtv\\?'\"", e) >= 0:
				out = append(out, map[byte]byte{'a': 7, 'b': 8, 'f': 12, 'n': 10, 'r': 13, 't': 9, 'v': 11, '\\': '\\', '?': '?', '\'': '\'', '"': '"'}[e])
				i++
			case isOct(e):
				v, n := 0, 0
				for n < 3 && i < len(body) && isOct(body[i]) {
					v = v*8 + int(body[i]-'0')
					i++
					n++
				}
				if v > 255 {
					return nil, true, "octal escape above \\377"
				}
				out = append(out, byte(v))
			case e == 'x' || e == 'X':
				i++
				if i >= len(body) || !isHex(body[i]) {
					return nil, false, ""
				}
				v, n := 0, 0
				for n < 2 && i < len(body) && isHex(body[i]) {
					v = v*16 + hexVal(body[i])
					i++
					n++
				}
				if e == 'X' {
					// protoc's tokenizer is believed to know only the lower-case \x; this cannot be
					// established offline
					return nil, true, "upper-case \\X escape"
				}
				out = append(out, byte(v))
			case e == 'u':
				i++
				if i+4 > len(body) {
					return nil, false, ""
				}
				v := 0
				for k := 0; k < 4; k++ {
					if !isHex(body[i+k]) {
						return nil, false, ""
					}
					v = v*16 + hexVal(body[i+k])
				}
				i += 4
				if v >= 0xD800 && v <= 0xDFFF {
					return nil, true, "surrogate code point"
				}
				out = utf8.AppendRune(out, rune(v))
			case e == 'U':
				i++
				if i+8 > len(body) {
					return nil, false, ""
				}
				v := 0
				for k := 0; k < 8; k++ {
					if !isHex(body[i+k]) {
						return nil, false, ""
					}
					v = v*16 + hexVal(body[i+k])
				}
				// the tokenizer wants 00, then 0 or 1, then five hex digits
				if body[i] != '0' || body[i+1] != '0' || body[i+2] != '0' && body[i+2] != '1' {
					return nil, false, ""
				}
				i += 8
				if v > 0x10FFFF {
					return nil, true, "\\U above 10FFFF"
				}
				if v >= 0xD800 && v <= 0xDFFF {
					return nil, true, "surrogate code point"
				}
				out = utf8.AppendRune(out, rune(v))
			default:
				return nil, false, ""
			}
		}
	}
	return out, true, ""
}

type numTok struct {
	ok      bool
	isFloat bool
	uval    uint64 // integer value (if it fits)
	fits    bool
	fval    float64
	base0   bool // octal or hex spelling
}

// refNumber models Tokenizer::ConsumeNumber for a text that must be exactly one numeric token.
func refNumber(t string) numTok {
	if t == "" {
		return numTok{}
	}
	i := 0
	startedDot := false
	if t[0] == '.' {
		if len(t) < 2 || !isDig(t[1]) {
			return numTok{}
		}
		startedDot = true
		i = 1
	} else if !isDig(t[0]) {
		return numTok{}
	}
	isFloat := false
	digits := func() {
		for i < len(t) && isDig(t[i]) {
			i++
		}
	}
	switch {
	case t[0] == '0' && len(t) > 1 && (t[1] == 'x' || t[1] == 'X'):
		i = 2
		if i >= len(t) || !isHex(t[i]) {
			return numTok{}
		}
		for i < len(t) && isHex(t[i]) {
			i++
		}
	case t[0] == '0' && len(t) > 1 && isDig(t[1]):
		i = 1
		for i < len(t) && isOct(t[i]) {
			i++
		}
		if i < len(t) && isDig(t[i]) {
			return numTok{}
		}
	default:
		if startedDot {
			isFloat = true
			digits()
		} else {
			digits()
			if i < len(t) && t[i] == '.' {
				isFloat = true
				i++
				digits()
			}
		}
		if i < len(t) && (t[i] == 'e' || t[i] == 'E') {
			isFloat = true
			i++
			if i < len(t) && (t[i] == '-' || t[i] == '+') {
				i++
			}
			if i >= len(t) || !isDig(t[i]) {
				return numTok{}
			}
			digits()
		}
	}
	if i != len(t) {
		return numTok{} // a letter, a second dot or another token follows
	}
	n := numTok{ok: true, isFloat: isFloat}
	if isFloat {
		f, err := strconv.ParseFloat(t, 64)
		if err != nil && !math.IsInf(f, 0) {
			return numTok{}
		}
		n.fval = f
		return n
	}
	n.base0 = t[0] == '0' && len(t) > 1
	u, err := strconv.ParseUint(t, 0, 64)
	if len(t) > 1 && t[0] == '0' && isDig(t[1]) {
		u, err = strconv.ParseUint(t[1:], 8, 64)
	}
	if err == nil {
		n.uval, n.fits = u, true
		n.fval = float64(u)
	} else {
		f, _ := strconv.ParseFloat(t, 64)
		n.fval = f
	}
	return n
}

// C14: string and number literals decode like protoc.
func runC14(h *hx.H) {
	nStr, nNum := 4, 5
	if h.Thorough() {
		nStr, nNum = 5, 6
	}
	h.Rule = fmt.Sprintf("inputs: every string body of <=%d units over {\\, x, X, u, U, 0, 3, 7, 8, 9, a, f, g, n, \", ', ?, NUL, LF, e-acute} in both quote kinds, every \\uXXXX and \\UXXXXXXXX with digits from {0, 1, D, F, 8}, as the default of a bytes field; every numeral text of <=%d characters over {0,1,7,8,9,.,e,E,x,X,+,-,f,_} plus boundary numerals around 2^31, 2^32, 2^63, 2^64 in decimal, octal and hex, as the default of int64, uint64 and double fields; each compiled by the real compiler; oracle: a reference model of protoc's tokenizer (ConsumeString/ParseStringAppend, ConsumeNumber, ParseInteger/ParseFloat) and of the default-value parser's token expectations: same accept/reject and same decoded bytes / numeric value; four sub-alphabets where protoc's behaviour cannot be established offline (octal escapes above \\377, surrogate code points, \\U above 10FFFF, the upper-case \\X escape) are excluded and counted; non-trivial = literal with an escape, or a numeral that is not plain decimal", nStr, nNum)
	h.Assumptions = append(h.Assumptions, "protoc itself is not available: the oracle is a reference model of its tokenizer written from the documented algorithm (DESIGN Appendix C)")
	check := func(kind, lit string, f func(idx int64)) {
		idx, run := h.NextN()
		if run {
			f(idx)
		}
		_ = kind
		_ = lit
	}
	// strings
	units := []string{"\\", "x", "X", "u", "U", "0", "3", "7", "8", "9", "a", "f", "g", "n", "\"", "'", "?", "\x00", "\n", "é"}
	var recS func(body string, n int)
	recS = func(body string, n int) {
		for _, q := range []byte{'"', '\''} {
			b, qq := body, q
			check("string", b, func(idx int64) { checkStringLit(h, idx, b, qq) })
		}
		if n == nStr {
			return
		}
		for _, u := range units {
			recS(body+u, n+1)
		}
	}
	recS("", 0)
	hexd := []string{"0", "1", "D", "F", "8"}
	var recU func(prefix string, left int, f func(string))
	recU = func(prefix string, left int, f func(string)) {
		if left == 0 {
			f(prefix)
			return
		}
		for _, d := range hexd {
			recU(prefix+d, left-1, f)
		}
	}
	recU("\\u", 4, func(s string) {
		check("string", s, func(idx int64) { checkStringLit(h, idx, s, '"') })
		check("string", s, func(idx int64) { checkStringLit(h, idx, "a"+s+"\\u00e9", '\'') })
	})
	recU("\\U", 8, func(s string) { check("string", s, func(idx int64) { checkStringLit(h, idx, s, '"') }) })
	// numerals
	alpha := "0178 9.eExX+-f_"
	alpha = strings.ReplaceAll(alpha, " ", "")
	var recN func(t string)
	recN = func(t string) {
		tt := t
		check("number", tt, func(idx int64) { checkNumberLit(h, idx, tt) })
		if len(t) == nNum {
			return
		}
		for i := 0; i < len(alpha); i++ {
			recN(t + string(alpha[i]))
		}
	}
	recN("")
	for _, t := range []string{"2147483647", "2147483648", "-2147483648", "-2147483649", "4294967295", "4294967296", "9223372036854775807", "9223372036854775808", "-9223372036854775808", "-9223372036854775809",
		"18446744073709551615", "18446744073709551616", "-18446744073709551615", "0xFFFFFFFFFFFFFFFF", "0x10000000000000000", "0x7FFFFFFFFFFFFFFF", "0x8000000000000000", "-0x8000000000000000", "-0x8000000000000001",
		"01777777777777777777777", "02000000000000000000000", "0777777777777777777777", "01000000000000000000000", "-01000000000000000000000", "1e308", "1e309", "-1e309", "1e-324", "4.9e-324", "1.7976931348623157e308", "1.7976931348623159e308",
		"0.1", "00.1", "1.", ".5", "-.5", "1.e5", "1e+5", "1E-5", "0e0", "0x1p3", "1_000", "1f", "1F", "1e5f", "0b1", "1l", "0.0.0", "1e5.5", "--1", "-+1", "+1", "- 1", "-\n1", "-/**/1", "inf", "-inf", "nan", "-nan", "Inf", "infinity", "NaN"} {
		tt := t
		check("number", tt, func(idx int64) { checkNumberLit(h, idx, tt) })
	}
}

func checkStringLit(h *hx.H, idx int64, body string, quote byte) {
	h.Eval(1)
	h.State(1)
	h.Trans(1)
	lit := string(quote) + body + string(quote)
	fail := func(sig, format string, args ...any) {
		h.Violate(sig, hx.CaseID(idx), fmt.Sprintf("literal %q: ", lit)+fmt.Sprintf(format, args...), map[string]any{"literal": lit})
	}
	want, ok, gap := refStringSeq(lit)
	src := "syntax = \"proto2\";\nmessage M {\n  optional bytes b = 1 [default = " + lit + "];\n}\n"
	res := compile(fileSet{"t.proto": src}, protocompile.SourceInfoNone, "t.proto")
	h.Trace(1)
	if gap != "" {
		h.Count("excluded: "+gap, 1)
		return
	}
	if strings.Contains(body, "\\") {
		h.NonTrivial++
	}
	accepted := res.err == nil
	if accepted != ok {
		if ok {
			fail("string-rejected:"+escClass(body), "the reference tokenizer accepts (bytes % x) but the compiler rejects: %v", want, first(res.errs))
		} else {
			fail("string-accepted:"+escClass(body), "the reference tokenizer rejects but the compiler accepts")
		}
		return
	}
	if !accepted {
		return
	}
	got := res.files[0].Messages().Get(0).Fields().Get(0).Default().Bytes()
	if !bytes.Equal(got, want) {
		fail("string-decodes-differently:"+escClass(body), "the compiler decodes % x, the reference tokenizer % x", got, want)
	}
}

// escClass names the first escape of a body (for signatures).
func escClass(body string) string {
	i := strings.IndexByte(body, '\\')
	if i < 0 || i+1 >= len(body) {
		if strings.ContainsAny(body, "\x00\n") {
			return "control-character"
		}
		return "no-escape"
	}
	c := body[i+1]
	switch {
	case isOct(c):
		return "octal"
	case c == 'x', c == 'X', c == 'u', c == 'U':
		return "\\" + string(c)
	case strings.IndexByte("abfnrtv\\?'\"", c) >= 0:
		return "simple"
	}
	return "other"
}

func first(s []string) string {
	if len(s) == 0 {
		return ""
	}
	return s[0]
}

func checkNumberLit(h *hx.H, idx int64, text string) {
	h.Eval(1)
	h.State(1)
	neg := strings.HasPrefix(text, "-")
	body := strings.TrimPrefix(text, "-")
	tok := refNumber(body)
	if strings.ContainsAny(text, " \n/") {
		// whitespace or a comment between the sign and the number is allowed
		tok = refNumber(strings.TrimLeft(strings.TrimPrefix(strings.TrimLeft(body, " \n"), "/**/"), " \n"))
	}
	if tok.ok && (tok.isFloat || tok.base0 || neg) {
		h.NonTrivial++
	}
	ident := body == "inf" || body == "nan"
	for _, typ := range []string{"int64", "uint64", "double"} {
		h.Trans(1)
		fail := func(sig, format string, args ...any) {
			h.Violate(sig, hx.CaseID(idx), fmt.Sprintf("%s default %q: ", typ, text)+fmt.Sprintf(format, args...), map[string]any{"literal": text, "type": typ})
		}
		var wantOK bool
		var wantI int64
		var wantU uint64
		var wantF float64
		switch typ {
		case "int64":
			if tok.ok && !tok.isFloat && tok.fits {
				if neg && tok.uval <= 1<<63 {
					wantOK, wantI = true, -int64(tok.uval)
				} else if !neg && tok.uval <= math.MaxInt64 {
					wantOK, wantI = true, int64(tok.uval)
				}
			}
		case "uint64":
			if tok.ok && !tok.isFloat && tok.fits && !neg {
				wantOK, wantU = true, tok.uval
			}
		case "double":
			switch {
			case ident:
				wantOK = true
				wantF = math.Inf(1)
				if body == "nan" {
					wantF = math.NaN()
				}
			case tok.ok && (tok.isFloat || tok.fits):
				wantOK, wantF = true, tok.fval
			case tok.ok && !tok.base0:
				wantOK, wantF = true, tok.fval // decimal integer beyond 64 bits is read as a float
			}
			if neg {
				wantF = -wantF
			}
		}
		src := "syntax = \"proto2\";\nmessage M {\n  optional " + typ + " v = 1 [default = " + text + "];\n}\n"
		res := compile(fileSet{"t.proto": src}, protocompile.SourceInfoNone, "t.proto")
		h.Trace(1)
		accepted := res.err == nil
		if accepted != wantOK {
			if wantOK {
				fail("number-rejected:"+typ+":"+numClass(body), "the reference tokenizer accepts but the compiler rejects: %v", first(res.errs))
			} else {
				fail("number-accepted:"+typ+":"+numClass(body), "the reference tokenizer rejects but the compiler accepts (default %v)", res.files[0].Messages().Get(0).Fields().Get(0).Default())
			}
			return
		}
		if !accepted {
			continue
		}
		d := res.files[0].Messages().Get(0).Fields().Get(0).Default()
		switch typ {
		case "int64":
			if d.Int() != wantI {
				fail("number-value:"+typ, "compiler %d, reference %d", d.Int(), wantI)
				return
			}
		case "uint64":
			if d.Uint() != wantU {
				fail("number-value:"+typ, "compiler %d, reference %d", d.Uint(), wantU)
				return
			}
		case "double":
			if math.Float64bits(d.Float()) != math.Float64bits(wantF) && !(math.IsNaN(d.Float()) && math.IsNaN(wantF)) {
				fail("number-value:"+typ, "compiler %v, reference %v", d.Float(), wantF)
				return
			}
		}
	}
}

// refStringSeq models what the parser does with the whole text: one or more string literals,
// possibly adjacent or separated by blanks, which concatenate.
func refStringSeq(text string) (out []byte, ok bool, gap string) {
	i, n := 0, 0
	for i < len(text) {
		c := text[i]
		if c == ' ' || c == '\n' || c == '\t' || c == '\r' {
			i++
			continue
		}
		if c != '"' && c != '\'' {
			return nil, false, ""
		}
		// find the closing quote: the first unescaped occurrence of c
		j := i + 1
		for j < len(text) && text[j] != c {
			if text[j] == '\\' {
				j++
			}
			j++
		}
		if j >= len(text) {
			return nil, false, "" // unterminated
		}
		piece, pok, pgap := refString(text[i+1:j], c)
		if !pok {
			return nil, false, ""
		}
		if pgap != "" {
			gap = pgap
		}
		out = append(out, piece...)
		i = j + 1
		n++
	}
	return out, n > 0, gap
}

// numClass names the shape of a numeral (for signatures).
func numClass(t string) string {
	switch {
	case len(t) > 1 && t[0] == '0' && isDig(t[1]) && strings.ContainsAny(t, ".eE"):
		return "leading-zero-float"
	case len(t) > 1 && t[0] == '0' && (t[1] == 'x' || t[1] == 'X'):
		return "hex"
	case len(t) > 1 && t[0] == '0' && isDig(t[1]):
		return "octal"
	case strings.ContainsAny(t, "_fFlL") || strings.ContainsAny(t, "xX"):
		return "letter-suffix"
	case strings.ContainsAny(t, ".eE"):
		return "float"
	case t == "" || !isDig(t[0]):
		return "not-a-number"
	}
	return "decimal"
}
