package main

import (
	"fmt"
	"strings"

	"google.golang.org/protobuf/proto"
	"google.golang.org/protobuf/reflect/protoreflect"
	"google.golang.org/protobuf/types/descriptorpb"

	"github.com/bufbuild/protocompile"
	"github.com/bufbuild/protocompile/internal/zzverif/hx"
	"github.com/bufbuild/protocompile/linker"
	"github.com/bufbuild/protocompile/options"
)

func init() { props["C22"] = runC22 }

var retWords = []string{"", "RETENTION_RUNTIME", "RETENTION_SOURCE"}

func retOpt(r int) string {
	if r == 0 {
		return ""
	}
	return " [retention = " + retWords[r] + "]"
}

type optKind struct{ prefix, target string }

var optKinds = []optKind{
	{"f", "FileOptions"}, {"m", "MessageOptions"}, {"fl", "FieldOptions"}, {"o", "OneofOptions"}, {"r", "ExtensionRangeOptions"},
	{"e", "EnumOptions"}, {"v", "EnumValueOptions"}, {"s", "ServiceOptions"}, {"rp", "MethodOptions"},
}

// retentionWorkspace builds opts.proto (option schema with the given retention assignment at six
// sites) and main.proto (every element kind carrying the options, in aggregate and path style).
func retentionWorkspace(r [6]int) fileSet {
	var o strings.Builder
	o.WriteString("syntax = \"proto2\";\npackage t;\nimport \"google/protobuf/descriptor.proto\";\n")
	fmt.Fprintf(&o, "message Deep { optional int32 x = 1%s; optional int32 y = 2; }\n", retOpt(r[4]))
	fmt.Fprintf(&o, "message Inner {\n  optional int32 a = 1%s;\n  optional int32 b = 2;\n  optional Deep d = 3%s;\n  repeated Deep rd = 4%s;\n  map<string, Deep> md = 5;\n}\n", retOpt(r[2]), retOpt(r[3]), retOpt(r[5]))
	for i, k := range optKinds {
		n := 50000 + i*10
		fmt.Fprintf(&o, "extend google.protobuf.%s {\n  optional int32 %stop = %d%s;\n  optional Inner %sin = %d%s;\n  optional Inner %sin2 = %d;\n  repeated Inner %srin = %d;\n  optional int32 %skeep = %d;\n}\n",
			k.target, k.prefix, n, retOpt(r[0]), k.prefix, n+1, retOpt(r[1]), k.prefix, n+2, k.prefix, n+3, k.prefix, n+4)
	}
	agg := "{ a: 1 b: 2 d { x: 1 y: 2 } rd { x: 3 y: 4 } rd { x: 5 } md { key: \"k\" value { x: 6 y: 7 } } }"
	stmts := func(p, ind string, keep bool) string {
		var b strings.Builder
		fmt.Fprintf(&b, "%soption (%stop) = 1;\n%soption (%sin) = %s;\n%soption (%sin2).a = 1;\n%soption (%sin2).d.x = 2;\n%soption (%srin) = { a: 7 d { x: 8 } };\n%soption (%srin) = { b: 9 };\n", ind, p, ind, p, agg, ind, p, ind, p, ind, p, ind, p)
		if keep {
			fmt.Fprintf(&b, "%soption (%skeep) = 3;\n", ind, p)
		}
		return b.String()
	}
	compact := func(p string, keep bool) string {
		s := fmt.Sprintf("[(%stop) = 1, (%sin) = %s, (%sin2).a = 1, (%sin2).d.x = 2, (%srin) = { a: 7 d { x: 8 } }, (%srin) = { b: 9 }", p, p, agg, p, p, p, p)
		if keep {
			s += fmt.Sprintf(", (%skeep) = 3", p)
		}
		return s + "]"
	}
	var m strings.Builder
	m.WriteString("syntax = \"proto2\";\npackage t;\nimport \"opts.proto\";\n")
	m.WriteString(stmts("f", "", true))
	m.WriteString("message M {\n" + stmts("m", "  ", false))
	m.WriteString("  optional int32 f = 1 " + compact("fl", true) + ";\n")
	m.WriteString("  oneof o {\n" + stmts("o", "    ", true) + "    int32 g = 2;\n  }\n")
	m.WriteString("  extensions 100 to 200 " + compact("r", false) + ";\n}\n")
	m.WriteString("enum E {\n" + stmts("e", "  ", true) + "  V = 0 " + compact("v", false) + ";\n}\n")
	// elements whose only option is the top-level scalar: when it is source-retained their whole
	// options message goes away
	m.WriteString("message Only {\n  option (mtop) = 1;\n  optional int32 h = 1 [(fltop) = 1];\n  oneof oo {\n    option (otop) = 1;\n    int32 g = 2;\n  }\n  extensions 100 to 200 [(rtop) = 1];\n  enum OE {\n    option (etop) = 1;\n    OV = 0 [(vtop) = 1];\n  }\n}\n")
	m.WriteString("service SO {\n  option (stop) = 1;\n  rpc R(M) returns (M) {\n    option (rptop) = 1;\n  }\n}\n")
	m.WriteString("service S {\n" + stmts("s", "  ", false) + "  rpc R(M) returns (M) {\n" + stmts("rp", "    ", true) + "  }\n}\n")
	return fileSet{"opts.proto": o.String(), "main.proto": m.String()}
}

func runC22(h *hx.H) {
	h.Rule = "inputs: an option schema with retention in {unset, RUNTIME, SOURCE} at six sites (top-level scalar extension, top-level message extension, field of the option message, message-typed field of it, field at depth 2, repeated message field) - all 729 assignments - applied to all nine element kinds in aggregate and in path style, with and without a surviving sibling option, plus elements of every kind whose only option is the top-level scalar (so that their whole options message can go away), compiled with source info none / standard / extra option locations; oracle: a reflective reference stripper (clear every set field whose descriptor says SOURCE, recurse into message values, lists and map values), input digest unchanged, strip(strip(x)) == strip(x), removed source locations == locations whose path runs through a removed field; non-trivial = assignment with >=1 SOURCE site"
	modes := []protocompile.SourceInfoMode{protocompile.SourceInfoNone, protocompile.SourceInfoStandard, protocompile.SourceInfoExtraOptionLocations}
	var r [6]int
	var rec func(i int)
	rec = func(i int) {
		if i == len(r) {
			for mi, mode := range modes {
				idx, run := h.NextN()
				if run {
					checkRetention(h, idx, r, mi, mode)
				}
			}
			return
		}
		for v := 0; v < 3; v++ {
			r[i] = v
			rec(i + 1)
		}
	}
	rec(0)
}

func checkRetention(h *hx.H, idx int64, r [6]int, mi int, mode protocompile.SourceInfoMode) {
	h.Eval(1)
	h.State(1)
	h.Trans(1)
	desc := fmt.Sprintf("retention %v source-info-mode %d", r, mi)
	fail := func(sig, format string, args ...any) {
		h.Violate(sig, hx.CaseID(idx), desc+": "+fmt.Sprintf(format, args...), map[string]any{"retention": r[:], "mode": mi})
	}
	ws := retentionWorkspace(r)
	res := compile(ws, mode, "main.proto")
	if res.err != nil {
		h.Infra = append(h.Infra, fmt.Sprintf("C22 workspace does not compile (%v): %v %v", r, res.err, res.errs))
		return
	}
	h.Trace(1)
	anySource := false
	for _, v := range r {
		if v == 2 {
			anySource = true
		}
	}
	if anySource {
		h.NonTrivial++
	}
	file := res.files[0]
	in := protodescProto(file)
	before, _ := proto.MarshalOptions{Deterministic: true}.Marshal(in)
	out, err := options.StripSourceRetentionOptionsFromFile(in)
	if err != nil {
		fail("strip-error", "StripSourceRetentionOptionsFromFile: %v", err)
		return
	}
	after, _ := proto.MarshalOptions{Deterministic: true}.Marshal(in)
	if string(before) != string(after) {
		fail("strip-mutates-input", "the input FileDescriptorProto changed")
		return
	}
	// reference: re-parse the input with the compiled extension types, strip reflectively
	resolver := linker.ResolverFromFile(file)
	reparse := func(fd *descriptorpb.FileDescriptorProto) (*descriptorpb.FileDescriptorProto, error) {
		b, err := proto.MarshalOptions{Deterministic: true}.Marshal(fd)
		if err != nil {
			return nil, err
		}
		var x descriptorpb.FileDescriptorProto
		if err := (proto.UnmarshalOptions{Resolver: resolver}).Unmarshal(b, &x); err != nil {
			return nil, err
		}
		return &x, nil
	}
	want, err := reparse(in)
	if err != nil {
		h.Infra = append(h.Infra, "C22 reparse: "+err.Error())
		return
	}
	var removed [][]int32
	refStripFile(want, &removed)
	got, err := reparse(out)
	if err != nil {
		h.Infra = append(h.Infra, "C22 reparse of output: "+err.Error())
		return
	}
	normalizeEmptyOptions(got)
	normalizeEmptyOptions(want)
	gi, wi := got.SourceCodeInfo, want.SourceCodeInfo
	got.SourceCodeInfo, want.SourceCodeInfo = nil, nil
	if !proto.Equal(got, want) {
		fail("strip-result-differs:"+firstOptionDiff(got, want), "stripped descriptor differs from the reference stripper's")
		return
	}
	// idempotence
	out2, err := options.StripSourceRetentionOptionsFromFile(out)
	if err != nil {
		fail("strip-error", "second StripSourceRetentionOptionsFromFile: %v", err)
		return
	}
	if !proto.Equal(out, out2) {
		fail("strip-not-idempotent", "stripping the stripped file changes it again")
		return
	}
	// source locations
	if mode != protocompile.SourceInfoNone {
		var wantLocs []string
		for _, loc := range in.GetSourceCodeInfo().GetLocation() {
			if !underAny(loc.Path, removed) {
				wantLocs = append(wantLocs, fmt.Sprint(loc.Path, loc.Span))
			}
		}
		var gotLocs []string
		for _, loc := range gi.GetLocation() {
			gotLocs = append(gotLocs, fmt.Sprint(loc.Path, loc.Span))
		}
		_ = wi
		if strings.Join(gotLocs, "|") != strings.Join(wantLocs, "|") {
			fail("strip-locations", "source locations after stripping: got %d, reference %d of %d (first difference: %s)", len(gotLocs), len(wantLocs), len(in.GetSourceCodeInfo().GetLocation()), firstDiff(gotLocs, wantLocs))
			return
		}
	}
	if h.WantSample() && anySource {
		h.Sample(map[string]any{"case": hx.CaseID(idx), "retention": fmt.Sprint(r), "mode": mi, "removed_paths": len(removed)})
	}
}

func firstDiff(a, b []string) string {
	for i := 0; i < len(a) || i < len(b); i++ {
		var x, y string
		if i < len(a) {
			x = a[i]
		}
		if i < len(b) {
			y = b[i]
		}
		if x != y {
			return fmt.Sprintf("#%d got %s want %s", i, x, y)
		}
	}
	return "none"
}

func underAny(p []int32, removed [][]int32) bool {
	for _, r := range removed {
		if len(p) >= len(r) {
			ok := true
			for i := range r {
				if p[i] != r[i] {
					ok = false
					break
				}
			}
			if ok {
				return true
			}
		}
	}
	return false
}

// refStripFile is the reference: walk the whole FileDescriptorProto reflectively; inside every
// `options` message clear each set field whose own descriptor declares RETENTION_SOURCE and
// recurse into the remaining message values. removed collects the source paths of cleared fields.
func refStripFile(fd *descriptorpb.FileDescriptorProto, removed *[][]int32) {
	var walk func(m protoreflect.Message, path []int32, inOptions bool)
	walk = func(m protoreflect.Message, path []int32, inOptions bool) {
		type item struct {
			fd protoreflect.FieldDescriptor
			v  protoreflect.Value
		}
		var items []item
		m.Range(func(f protoreflect.FieldDescriptor, v protoreflect.Value) bool {
			items = append(items, item{f, v})
			return true
		})
		for _, it := range items {
			f, v := it.fd, it.v
			p := append(append([]int32(nil), path...), int32(f.Number()))
			if inOptions {
				if fo, ok := f.Options().(*descriptorpb.FieldOptions); ok && fo.GetRetention() == descriptorpb.FieldOptions_RETENTION_SOURCE {
					m.Clear(f)
					*removed = append(*removed, p)
					continue
				}
			}
			if f.Message() == nil && !(f.IsMap() && f.MapValue().Message() != nil) {
				continue
			}
			childOpts := inOptions || (f.Name() == "options" && strings.HasSuffix(string(f.Message().Name()), "Options"))
			switch {
			case f.IsMap():
				if f.MapValue().Message() != nil {
					v.Map().Range(func(_ protoreflect.MapKey, mv protoreflect.Value) bool {
						walk(mv.Message(), p, childOpts) // map entries have no stable index in source paths
						return true
					})
				}
			case f.IsList():
				for i := 0; i < v.List().Len(); i++ {
					walk(v.List().Get(i).Message(), append(append([]int32(nil), p...), int32(i)), childOpts)
				}
			default:
				walk(v.Message(), p, childOpts)
				// an options message that lost all of its content is removed as a whole, and with it
				// the locations of the option statements themselves (path == the options path)
				if !inOptions && childOpts && proto.Size(v.Message().Interface()) == 0 {
					*removed = append(*removed, p)
				}
			}
		}
	}
	walk(fd.ProtoReflect(), nil, false)
}

// normalizeEmptyOptions drops options messages that have no content at all (the statement does
// not say whether an emptied options message stays as an empty message or disappears).
func normalizeEmptyOptions(fd *descriptorpb.FileDescriptorProto) {
	var walk func(m protoreflect.Message)
	walk = func(m protoreflect.Message) {
		m.Range(func(f protoreflect.FieldDescriptor, v protoreflect.Value) bool {
			if f.Message() == nil || f.IsMap() {
				return true
			}
			if f.IsList() {
				for i := 0; i < v.List().Len(); i++ {
					walk(v.List().Get(i).Message())
				}
				return true
			}
			if f.Name() == "options" && strings.HasSuffix(string(f.Message().Name()), "Options") {
				if proto.Size(v.Message().Interface()) == 0 {
					m.Clear(f)
				}
				return true
			}
			walk(v.Message())
			return true
		})
	}
	walk(fd.ProtoReflect())
}

// firstOptionDiff names the element kind whose options differ first (for the signature).
func firstOptionDiff(got, want *descriptorpb.FileDescriptorProto) string {
	type pair struct {
		name string
		a, b proto.Message
	}
	var ps []pair
	ps = append(ps, pair{"file", got.GetOptions(), want.GetOptions()})
	if len(got.MessageType) > 0 && len(want.MessageType) > 0 {
		gm, wm := got.MessageType[0], want.MessageType[0]
		ps = append(ps, pair{"message", gm.GetOptions(), wm.GetOptions()})
		if len(gm.Field) > 0 && len(wm.Field) > 0 {
			ps = append(ps, pair{"field", gm.Field[0].GetOptions(), wm.Field[0].GetOptions()})
		}
		if len(gm.OneofDecl) > 0 && len(wm.OneofDecl) > 0 {
			ps = append(ps, pair{"oneof", gm.OneofDecl[0].GetOptions(), wm.OneofDecl[0].GetOptions()})
		}
		if len(gm.ExtensionRange) > 0 && len(wm.ExtensionRange) > 0 {
			ps = append(ps, pair{"extension-range", gm.ExtensionRange[0].GetOptions(), wm.ExtensionRange[0].GetOptions()})
		}
	}
	if len(got.EnumType) > 0 && len(want.EnumType) > 0 {
		ps = append(ps, pair{"enum", got.EnumType[0].GetOptions(), want.EnumType[0].GetOptions()})
		if len(got.EnumType[0].Value) > 0 && len(want.EnumType[0].Value) > 0 {
			ps = append(ps, pair{"enum-value", got.EnumType[0].Value[0].GetOptions(), want.EnumType[0].Value[0].GetOptions()})
		}
	}
	if len(got.Service) > 0 && len(want.Service) > 0 {
		ps = append(ps, pair{"service", got.Service[0].GetOptions(), want.Service[0].GetOptions()})
		if len(got.Service[0].Method) > 0 && len(want.Service[0].Method) > 0 {
			ps = append(ps, pair{"method", got.Service[0].Method[0].GetOptions(), want.Service[0].Method[0].GetOptions()})
		}
	}
	for _, p := range ps {
		if !proto.Equal(p.a, p.b) {
			// nested or top-level?
			depth := "nested"
			ga, gb := p.a.ProtoReflect(), p.b.ProtoReflect()
			n1, n2 := 0, 0
			ga.Range(func(protoreflect.FieldDescriptor, protoreflect.Value) bool { n1++; return true })
			gb.Range(func(protoreflect.FieldDescriptor, protoreflect.Value) bool { n2++; return true })
			if n1 != n2 {
				depth = "top-level"
			}
			return p.name + "-" + depth
		}
	}
	return "other"
}
