// Harness for properties of the stable compiler that are decided by compiling
// small generated workspaces sequentially and comparing with a reference
// (C18, C19, C22, C24, C26): exhaustive enumeration of bounded input families.
package main

import (
	"context"
	"fmt"
	"os"
	"sort"
	"strings"

	"google.golang.org/protobuf/reflect/protoreflect"
	"google.golang.org/protobuf/types/descriptorpb"

	"github.com/bufbuild/protocompile"
	"github.com/bufbuild/protocompile/protoutil"
	"github.com/bufbuild/protocompile/internal/zzverif/hx"
	"github.com/bufbuild/protocompile/linker"
	"github.com/bufbuild/protocompile/reporter"
)

var props = map[string]func(h *hx.H){}

func main() {
	prop := ""
	for i, a := range os.Args {
		if a == "-prop" && i+1 < len(os.Args) {
			prop = os.Args[i+1]
			os.Args = append(os.Args[:i], os.Args[i+2:]...)
			break
		}
	}
	hx.Main(prop, func(h *hx.H) {
		f, ok := props[prop]
		if !ok {
			h.Infra = append(h.Infra, "unknown property "+prop)
			return
		}
		f(h)
	})
}

type fileSet map[string]string

func (fs fileSet) names() []string {
	var out []string
	for n := range fs {
		out = append(out, n)
	}
	sort.Strings(out)
	return out
}

func (fs fileSet) String() string {
	var b strings.Builder
	for _, n := range fs.names() {
		fmt.Fprintf(&b, "--- %s\n%s\n", n, fs[n])
	}
	return b.String()
}

type compiled struct {
	files linker.Files
	err   error
	errs  []string
	warns []string
}

// compile runs the real compiler sequentially over in-memory sources with a reporter that
// records everything and never aborts.
func compile(fs fileSet, mode protocompile.SourceInfoMode, names ...string) *compiled {
	out := &compiled{}
	rep := reporter.NewReporter(
		func(e reporter.ErrorWithPos) error { out.errs = append(out.errs, e.Error()); return nil },
		func(e reporter.ErrorWithPos) { out.warns = append(out.warns, e.Error()) },
	)
	c := protocompile.Compiler{
		Resolver: protocompile.WithStandardImports(&protocompile.SourceResolver{
			Accessor: protocompile.SourceAccessorFromMap(fs),
		}),
		MaxParallelism: 1,
		Reporter:       rep,
		SourceInfoMode: mode,
	}
	out.files, out.err = c.Compile(context.Background(), names...)
	return out
}

func short(s string, n int) string {
	if len(s) <= n {
		return s
	}
	return s[:n/2] + "…" + s[len(s)-n/2:]
}

// protodescProto returns the FileDescriptorProto behind a compiled file.
func protodescProto(fd protoreflect.FileDescriptor) *descriptorpb.FileDescriptorProto {
	return protoutil.ProtoFromFileDescriptor(fd)
}

func protoName(s string) protoreflect.Name { return protoreflect.Name(s) }
