package main

import (
	"fmt"
	"strings"

	"google.golang.org/protobuf/reflect/protoreflect"

	"github.com/bufbuild/protocompile"
	"github.com/bufbuild/protocompile/internal/zzverif/hx"
	"github.com/bufbuild/protocompile/linker"
)

func init() { props["C18"] = runC18 }

// C18: a resolver built from a compiled file finds an element exactly when it is defined in the
// file, in a direct import, or in a file reachable from a direct import through public imports.
func runC18(h *hx.H) {
	h.Rule = "inputs: every import graph on 4 (thorough 5) files with edge kind in {none, import, import public} for each pair i<j (3^6 = 729 / 3^10 = 59049 graphs), in two package layouts (one shared package, one package per file) and two import orders (ascending, descending); every file defines a message, a nested message, an enum, a service and an extension of google.protobuf.MessageOptions; every file is a viewpoint; oracle: visible(f) = {f} + direct imports + public closure of the direct imports, computed on the graph; FindDescriptorByName (5 element kinds), FindMessageByName, FindExtensionByName, FindExtensionByNumber and FindFileByPath must succeed exactly on visible files; non-trivial = graph with a public edge"
	n := 4
	if h.Thorough() {
		n = 5
	}
	pairs := n * (n - 1) / 2
	total := 1
	for i := 0; i < pairs; i++ {
		total *= 3
	}
	for layout := 0; layout < 4; layout++ {
		for code := 0; code < total; code++ {
			idx, run := h.NextN()
			if !run {
				continue
			}
			checkVisibility(h, idx, n, code, layout%2, layout/2)
		}
	}
}

func checkVisibility(h *hx.H, idx int64, n, code, layout, order int) {
	h.Eval(1)
	h.State(1)
	// decode edges
	kind := make([][]int, n)
	for i := range kind {
		kind[i] = make([]int, n)
	}
	c := code
	hasPublic := false
	for i := 0; i < n; i++ {
		for j := i + 1; j < n; j++ {
			kind[i][j] = c % 3
			if kind[i][j] == 2 {
				hasPublic = true
			}
			c /= 3
		}
	}
	pkg := func(i int) string {
		if layout == 0 {
			return "p"
		}
		return fmt.Sprintf("p%d", i)
	}
	fs := fileSet{}
	names := make([]string, n)
	for i := 0; i < n; i++ {
		names[i] = fmt.Sprintf("f%d.proto", i)
		var b strings.Builder
		fmt.Fprintf(&b, "syntax = \"proto2\";\npackage %s;\nimport \"google/protobuf/descriptor.proto\";\n", pkg(i))
		for k := i + 1; k < n; k++ {
			j := k
			if order == 1 {
				j = n - 1 - (k - i - 1) // the same imports, listed in descending order
			}
			switch kind[i][j] {
			case 1:
				fmt.Fprintf(&b, "import \"f%d.proto\";\n", j)
			case 2:
				fmt.Fprintf(&b, "import public \"f%d.proto\";\n", j)
			}
		}
		fmt.Fprintf(&b, "message M%d { message N%d {} }\nenum E%d { V%d = 0; }\nservice S%d {}\nextend google.protobuf.MessageOptions { optional int32 x%d = %d; }\n", i, i, i, i, i, i, 50000+i)
		fs[names[i]] = b.String()
	}
	desc := fmt.Sprintf("graph %d/%d layout %d import-order %d", code, n, layout, order)
	fail := func(sig, format string, args ...any) {
		h.Violate(sig, hx.CaseID(idx), desc+": "+fmt.Sprintf(format, args...), map[string]any{"files": fs.String()})
	}
	res := compile(fs, protocompile.SourceInfoNone, names...)
	if res.err != nil {
		h.Infra = append(h.Infra, fmt.Sprintf("C18 workspace does not compile: %v %v\n%s", res.err, res.errs, fs))
		return
	}
	h.Trace(1)
	if hasPublic {
		h.NonTrivial++
	}
	for v := 0; v < n; v++ {
		// reference visibility
		vis := map[int]bool{v: true}
		var pub func(i int)
		pub = func(i int) {
			for j := i + 1; j < n; j++ {
				if kind[i][j] == 2 && !vis[j] {
					vis[j] = true
					pub(j)
				}
			}
		}
		for j := v + 1; j < n; j++ {
			if kind[v][j] != 0 {
				vis[j] = true
			}
		}
		for j := v + 1; j < n; j++ {
			if kind[v][j] != 0 {
				pub(j)
			}
		}
		var file linker.File
		for _, f := range res.files {
			if f.Path() == names[v] {
				file = f
			}
		}
		r := linker.ResolverFromFile(file)
		for g := 0; g < n; g++ {
			h.Trans(1)
			want := vis[g]
			p := protoreflect.FullName(pkg(g))
			type probe struct {
				what string
				ok   bool
				err  error
			}
			var probes []probe
			for _, nm := range []string{fmt.Sprintf("M%d", g), fmt.Sprintf("M%d.N%d", g, g), fmt.Sprintf("E%d", g), fmt.Sprintf("V%d", g), fmt.Sprintf("S%d", g), fmt.Sprintf("x%d", g)} {
				d, err := r.FindDescriptorByName(protoreflect.FullName(string(p) + "." + nm))
				probes = append(probes, probe{"FindDescriptorByName(" + nm + ")", err == nil && d != nil, err})
			}
			mt, err := r.FindMessageByName(protoreflect.FullName(fmt.Sprintf("%s.M%d", p, g)))
			probes = append(probes, probe{"FindMessageByName", err == nil && mt != nil, err})
			xt, err := r.FindExtensionByName(protoreflect.FullName(fmt.Sprintf("%s.x%d", p, g)))
			probes = append(probes, probe{"FindExtensionByName", err == nil && xt != nil, err})
			xn, err := r.FindExtensionByNumber("google.protobuf.MessageOptions", protoreflect.FieldNumber(50000+g))
			probes = append(probes, probe{"FindExtensionByNumber", err == nil && xn != nil, err})
			fd, err := r.FindFileByPath(names[g])
			probes = append(probes, probe{"FindFileByPath", err == nil && fd != nil, err})
			for _, pr := range probes {
				if pr.ok != want {
					what := pr.what
					if i := strings.IndexByte(what, '('); i > 0 {
						what = what[:i]
					}
					dir := "finds-invisible"
					if want {
						dir = "misses-visible"
					}
					fail("resolver-"+dir+":"+what, "viewpoint f%d, element of f%d: %s succeeded=%v (err %v), visible by the import graph=%v", v, g, pr.what, pr.ok, pr.err, want)
					return
				}
			}
		}
		// descriptor.proto is a direct import of every file
		if _, err := r.FindMessageByName("google.protobuf.MessageOptions"); err != nil {
			fail("resolver-misses-visible:descriptor.proto", "viewpoint f%d cannot find google.protobuf.MessageOptions: %v", v, err)
			return
		}
		if _, err := r.FindDescriptorByName("p.Nope"); err == nil {
			fail("resolver-finds-undefined", "viewpoint f%d finds p.Nope", v)
			return
		}
	}
	if h.WantSample() && hasPublic && code%97 == 5 {
		h.Sample(map[string]any{"case": hx.CaseID(idx), "files": fs.String()})
	}
}
