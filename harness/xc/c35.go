package main

import (
	"fmt"
	"strings"

	"github.com/bufbuild/protocompile/experimental/incremental"
	"github.com/bufbuild/protocompile/experimental/incremental/queries"
	"github.com/bufbuild/protocompile/experimental/ir"
	"github.com/bufbuild/protocompile/experimental/source"
	"github.com/bufbuild/protocompile/internal/zzverif/hx"
)

func init() { props["C35"] = runC35 }

type edit struct {
	path    string
	variant int // -1 = delete the file
}

func (e edit) String() string {
	if e.variant < 0 {
		return "delete " + e.path
	}
	return fmt.Sprintf("%s:=v%d", e.path, e.variant)
}

func runC35(h *hx.H) {
	h.Rule = "workspace {a,b,c}.proto (a imports b and c publicly through b), 4 content variants per file (valid; a type renamed; an import dropped or made non-public; a syntax error) plus deletion and re-adding; every edit history of length <=3 (quick) / <=4 (thorough), each edit followed by Evict of the changed path's File queries and a recompile of all files on the long-lived executor; oracle: descriptors and diagnostics equal a fresh executor and session on the final files after every step; non-trivial = history whose final workspace differs from the initial one"
	hdr := "syntax = \"proto2\";\npackage p;\n"
	variants := map[string][]string{
		"a.proto": {
			hdr + "import \"b.proto\";\nmessage A { optional B b = 1; optional C c = 2; }\n",
			hdr + "import \"b.proto\";\nmessage A2 { optional B b = 1; }\n",
			hdr + "import \"b.proto\";\nimport \"c.proto\";\nmessage A { optional B b = 1; optional C c = 2; }\n",
			hdr + "import \"b.proto\";\nmessage A { optional B b = ; }\n",
		},
		"b.proto": {
			hdr + "import public \"c.proto\";\nmessage B { optional C c = 1; }\n",
			hdr + "import public \"c.proto\";\nmessage Bee { optional C c = 1; }\n",
			hdr + "import \"c.proto\";\nmessage B { optional C c = 1; }\n",
			hdr + "import public \"c.proto\";\nmessage B { optional C c = 1 }\n",
		},
		"c.proto": {
			hdr + "message C { optional int32 x = 1; }\n",
			hdr + "message Cee { optional int32 x = 1; }\n",
			hdr + "message C { optional int32 x = 1; optional string y = 2; }\nenum CE { CE0 = 0; }\n",
			hdr + "message C { optional int32 x = 1; optional int32 y = 1; }\n",
		},
	}
	paths := []string{"a.proto", "b.proto", "c.proto"}
	var edits []edit
	for _, p := range paths {
		for v := range variants[p] {
			edits = append(edits, edit{p, v})
		}
		edits = append(edits, edit{p, -1})
	}
	maxLen := 3
	if h.Thorough() {
		maxLen = 4
	}
	var hist []edit
	var rec func()
	rec = func() {
		if len(hist) > 0 {
			if idx, run := h.NextN(); run {
				checkEdits(h, hx.CaseID(idx), variants, paths, hist)
			}
		}
		if len(hist) == maxLen || h.TooMany() || h.Expired() {
			return
		}
		for _, e := range edits {
			hist = append(hist, e)
			rec()
			hist = hist[:len(hist)-1]
		}
	}
	rec()
}

func checkEdits(h *hx.H, id string, variants map[string][]string, paths []string, hist []edit) {
	h.Eval(1)
	h.State(1)
	h.Trace(1)
	files := map[string]string{}
	for _, p := range paths {
		files[p] = variants[p][0]
	}
	mem := &memOpener{files}
	opener := &source.Openers{source.WKTs(), mem}
	ex := incremental.New(incremental.WithParallelism(2))
	sess := &ir.Session{}
	compileAll(ex, opener, sess, paths) // warm the caches
	desc := func(k int) string {
		var s []string
		for i, e := range hist {
			t := e.String()
			if i == k {
				t = "[" + t + "]"
			}
			s = append(s, t)
		}
		return strings.Join(s, "; ")
	}
	changed := false
	for k, e := range hist {
		h.Trans(1)
		if e.variant < 0 {
			delete(files, e.path)
		} else {
			files[e.path] = variants[e.path][e.variant]
		}
		ex.Evict(queries.File{Opener: opener, Path: e.path, ReportError: false}, queries.File{Opener: opener, Path: e.path, ReportError: true})
		got := compileAll(ex, opener, sess, paths)
		// reference: brand-new executor, session and opener on the same files
		ref := map[string]string{}
		for p, s := range files {
			ref[p] = s
		}
		want := compileAll(incremental.New(incremental.WithParallelism(2)), &source.Openers{source.WKTs(), &memOpener{ref}}, &ir.Session{}, paths)
		if got != want {
			h.Violate("incremental-differs-from-batch", id, fmt.Sprintf("history %s: after edit %d the long-lived executor gives\n%s--- a fresh executor gives ---\n%s", desc(k), k, got, want), nil)
			return
		}
	}
	for _, p := range paths {
		if files[p] != variants[p][0] {
			changed = true
		}
	}
	if changed {
		h.NonTrivial++
		if h.WantSample() && len(hist) >= 2 {
			h.Sample(map[string]any{"case": id, "history": desc(-1)})
		}
	}
}
