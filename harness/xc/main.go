// Harness for properties of the experimental compiler that need no scheduler
// (C35 edit histories; later C27): explicit enumeration of histories / inputs on
// the real queries with a fresh-executor reference.
package main

import (
	"context"
	"crypto/sha256"
	"fmt"
	"io/fs"
	"os"
	"strings"

	"github.com/bufbuild/protocompile/experimental/fdp"
	"github.com/bufbuild/protocompile/experimental/incremental"
	"github.com/bufbuild/protocompile/experimental/incremental/queries"
	"github.com/bufbuild/protocompile/experimental/ir"
	"github.com/bufbuild/protocompile/experimental/source"
	"github.com/bufbuild/protocompile/internal/zzverif/hx"
)

var props = map[string]func(h *hx.H){}

func main() {
	prop := ""
	for i, a := range os.Args {
		if a == "-prop" && i+1 < len(os.Args) {
			prop = os.Args[i+1]
			os.Args = append(os.Args[:i], os.Args[i+2:]...)
			break
		}
	}
	hx.Main(prop, func(h *hx.H) {
		f, ok := props[prop]
		if !ok {
			h.Infra = append(h.Infra, "unknown property "+prop)
			return
		}
		f(h)
	})
}

type memOpener struct{ files map[string]string }

func (m *memOpener) Open(path string) (*source.File, error) {
	if s, ok := m.files[path]; ok {
		return source.NewFile(path, s), nil
	}
	return nil, fs.ErrNotExist
}

// compileAll runs the IR query for every path and renders everything observable:
// per-file descriptor digests (or the fatal error) and the diagnostics.
func compileAll(ex *incremental.Executor, opener source.Opener, sess *ir.Session, paths []string) string {
	qs := make([]incremental.Query[*ir.File], len(paths))
	for i, p := range paths {
		qs[i] = queries.IR{Opener: opener, Session: sess, Path: p}
	}
	var b strings.Builder
	res, rep, err := incremental.Run(context.Background(), ex, qs...)
	if err != nil {
		return "run error: " + err.Error()
	}
	for i, r := range res {
		switch {
		case r.Fatal != nil:
			fmt.Fprintf(&b, "%s: fatal %v\n", paths[i], r.Fatal)
		case r.Value == nil:
			fmt.Fprintf(&b, "%s: nil\n", paths[i])
		default:
			data, err := fdp.DescriptorProtoBytes(r.Value)
			if err != nil {
				fmt.Fprintf(&b, "%s: descriptor error %v\n", paths[i], err)
			} else {
				fmt.Fprintf(&b, "%s: %x\n", paths[i], sha256.Sum256(data))
			}
		}
	}
	for i := range rep.Diagnostics {
		d := &rep.Diagnostics[i]
		p := d.Primary()
		fmt.Fprintf(&b, "diag %d %s[%d,%d) %s\n", d.Level(), p.Path(), p.Start, p.End, d.Message())
	}
	return b.String()
}
