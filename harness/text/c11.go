package main

import (
	"bytes"
	"fmt"
	"strings"

	"github.com/bufbuild/protocompile/ast"
	"github.com/bufbuild/protocompile/internal/zzverif/hx"
	"github.com/bufbuild/protocompile/parser"
	"github.com/bufbuild/protocompile/reporter"
)

func init() { props["C11"] = runC11 }

// printAST is the repository's own round-trip procedure (ast/ast_roundtrip_test.go):
// leading comments, leading whitespace and raw text of every terminal in Walk order,
// then trailing comments; the EOF terminal carries the file's trailing trivia.
func printAST(file *ast.FileNode) string {
	var b strings.Builder
	comments := func(cs ast.Comments) {
		for i := 0; i < cs.Len(); i++ {
			c := cs.Index(i)
			b.WriteString(c.LeadingWhitespace())
			b.WriteString(c.RawText())
		}
	}
	_ = ast.Walk(file, &ast.SimpleVisitor{DoVisitTerminalNode: func(t ast.TerminalNode) error {
		info := file.NodeInfo(t)
		comments(info.LeadingComments())
		b.WriteString(info.LeadingWhitespace())
		b.WriteString(info.RawText())
		comments(info.TrailingComments())
		return nil
	}})
	return b.String()
}

func runC11(h *hx.H) {
	h.Rule = "every token string of <=3 (quick) / <=4 (thorough) tokens with every assignment of separators from {space, TAB, CRLF, LF, FF, block comment, line comment, nothing} (plus leading/trailing trivia), every arrangement of <=2 non-default trivia values in the slots of two declaration skeletons (the second with empty declarations after every kind of statement), every corpus file with and without a byte-order mark and with CRLF line ends, literal spellings inside option values; for each input the parser accepts, printing the AST must reproduce the input bytes (minus the BOM); non-trivial = accepted input containing a comment, tab, CR or form feed"
	check := func(src string) {
		idx, run := h.NextN()
		if !run {
			return
		}
		checkRoundTrip(h, idx, src)
	}
	seps := []string{" ", "\t", "\r\n", "\n", "\f", " /*c*/ ", " //c\n", ""}
	nTok := 3
	if h.Thorough() {
		nTok = 4
	}
	// a reduced alphabet keeps sep^k manageable; it holds one token of every lexical class
	alpha := []string{"syntax", "message", "option", "foo", "3", "\"s\"", "1.5", "=", ";", "{", "}", "[", "]", "(", ")", ".", "-", ","}
	var rec func(prefix string, n int)
	rec = func(prefix string, n int) {
		for _, t := range alpha {
			for _, sp := range seps {
				if prefix == "" && sp != " " {
					continue
				}
				s := t
				if prefix != "" {
					s = prefix + sp + t
				}
				check(s)
				if n+1 == nTok {
					check(" " + s + "\n")
					check(s + " // trailing")
					check("/* lead */" + s + "\n\n")
				}
				if n+1 < nTok {
					rec(s, n+1)
				}
			}
		}
	}
	rec("", 0)
	// layout skeleton
	skel := []string{"syntax", "=", "\"proto2\"", ";", "message", "M", "{", "optional", "int32", "a", "=", "1", "[", "deprecated", "=", "true", "]", ";", "}", "enum", "E", "{", "A", "=", "0", ";", "}"}
	trivia := []string{"\n", "\n\n", "\t", "\r\n", "\f", "// c\n", "/* c */", "/* c\n c */", " /* c */\n", "// c\n\n", "// c\n// d\n", "\n// c\n", "\n\n// c\n\n", "/**/", "//\n", " \t "}
	build := func(slots map[int]string) string {
		var b strings.Builder
		for i, t := range skel {
			if v, ok := slots[i]; ok {
				b.WriteString(v)
			} else if i > 0 {
				b.WriteString(" ")
			}
			b.WriteString(t)
		}
		if v, ok := slots[len(skel)]; ok {
			b.WriteString(v)
		} else {
			b.WriteString("\n")
		}
		return b.String()
	}
	// a second skeleton with empty declarations (extra semicolons) after every kind of statement
	skel2 := strings.Fields(`syntax = "proto2" ; ; package p ; ; import "x.proto" ; ; option java_package = "y" ; ; message M { optional int32 a = 1 ; ; map < string , int32 > m = 2 ; ; reserved "zz" ; ; enum E { A = 0 ; ; } ; } service S { rpc R ( M ) returns ( M ) ; ; }`)
	forEachLayout(skel2, trivia, 2, 3, func(s string) { check(s) })
	// a third skeleton with message literals (every separator form, angle brackets, extension names, lists)
	skel3 := strings.Fields(`syntax = "proto2" ; option ( o ) = { a : 1 , b : "s" ; c { d : 1 } e < f : 2 ; > g : [ 1 , 2 ] [ x . y ] : 3 , } ; message M { optional int32 f = 1 [ ( o ) = { a : 1 ; } , deprecated = true ] ; }`)
	forEachLayout(skel3, trivia, 2, 3, func(s string) { check(s) })
	check(build(nil))
	for i := 0; i <= len(skel); i++ {
		for _, v := range trivia {
			check(build(map[int]string{i: v}))
			for j := i + 1; j <= len(skel); j++ {
				if !h.Thorough() && (j-i > 3 && j != len(skel)) {
					continue
				}
				for _, w := range trivia {
					check(build(map[int]string{i: v, j: w}))
				}
			}
		}
	}
	// corpus
	_, texts := corpus()
	for _, t := range texts {
		check(t)
		check("\xef\xbb\xbf" + t)
		check(strings.ReplaceAll(t, "\n", "\r\n"))
		check(strings.TrimRight(t, "\n"))
	}
	// literal spellings in an option value
	lits := []string{"0", "00", "0x1F", "0X1f", "1e3", "1E+3", ".5", "5.", "1.5e-3", "\"\\n\\x41\\101\\u00e9\\U0001F600\"", "'a' \"b\"", "'\\''", "\"é\"", "inf", "-inf", "nan", "- 3", "-\t3", "{a:1 b:[1,2]}", "{a<b:1>}", "{[x.y]:1}", "{ /*c*/ a : 1 , }"}
	for _, l := range lits {
		check("option (o) = " + l + ";\n")
		check("message M { optional int32 a = 1 [default = " + l + "]; }")
	}
}

func checkRoundTrip(h *hx.H, idx int64, src string) {
	h.Eval(1)
	h.State(1)
	h.Trans(1)
	fail := func(sig, format string, args ...any) {
		h.Violate(sig, hx.CaseID(idx), fmt.Sprintf("source %q: ", truncate([]byte(src)))+fmt.Sprintf(format, args...), nil)
	}
	defer func() {
		if p := recover(); p != nil {
			fail("roundtrip-panic", "panic: %v", p)
		}
	}()
	file, err := parser.Parse("t.proto", bytes.NewReader([]byte(src)), reporter.NewHandler(nil))
	if err != nil || file == nil {
		h.Count("rejected_by_parser", 1)
		return
	}
	h.Trace(1)
	if strings.ContainsAny(src, "\t\r\f/") {
		h.NonTrivial++
	}
	want := strings.TrimPrefix(src, "\xef\xbb\xbf")
	got := printAST(file)
	if got != want {
		i := 0
		for i < len(got) && i < len(want) && got[i] == want[i] {
			i++
		}
		fail("ast-roundtrip", "printing the AST gives %q; first difference at byte %d", truncate([]byte(got)), i)
		return
	}
	if h.WantSample() && strings.Contains(src, "/*") && len(src) > 30 && len(src) < 200 {
		h.Sample(map[string]any{"case": hx.CaseID(idx), "source": src})
	}
}
