package main

import (
	"bytes"
	"fmt"
	"strings"
	"unicode/utf8"

	"github.com/bufbuild/protocompile/ast"
	"github.com/bufbuild/protocompile/internal/zzverif/hx"
	"github.com/bufbuild/protocompile/parser"
	"github.com/bufbuild/protocompile/reporter"
)

func init() { props["C13"] = runC13 }

// refPos is the 10-line reference: line = 1 + newlines before the offset,
// column = 1 + fold over the line prefix (tab -> next multiple of 8, else +1 per rune start).
func refPos(src string, off int) (line, col int) {
	line = 1 + strings.Count(src[:off], "\n")
	ls := strings.LastIndexByte(src[:off], '\n') + 1
	c := 0
	for i := ls; i < off; i++ {
		switch {
		case src[i] == '\t':
			c += 8 - c%8
		case utf8.RuneStart(src[i]):
			c++
		}
	}
	return line, c + 1
}

func runC13(h *hx.H) {
	h.Rule = "(each source also behind a UTF-8 byte-order mark, with the positions of the text without it as reference) every text T of <=5 (quick) / <=6 (thorough) symbols over {a, TAB, e-acute, emoji, CR, LF, space} embedded as `/*T*/ x`, `x //T` (T without LF) bare `T x` (ASCII subset), and for |T| <= 3 inside string literals (`\"T\" x`, after a backslash, inside unfinished \\x, \\u and octal escapes): for every token and comment the reported start (and exclusive end) line/column must equal the reference function at that offset, and every AST node's span must start no later than it ends; non-trivial = text with a tab, a multi-byte character or a newline"
	alpha := []string{"a", "\t", "é", "😀", "\r", "\n", " "}
	maxLen := 5
	if h.Thorough() {
		maxLen = 6
	}
	var rec func(t string, n int)
	rec = func(t string, n int) {
		if idx, run := h.NextN(); run {
			id := hx.CaseID(idx)
			checkPositions(h, id, "/*"+t+"*/ x", t)
			if !strings.Contains(t, "\n") {
				checkPositions(h, id, "x //"+t, t)
				checkPositions(h, id, "x /*"+t+"*/", t)
			}
			if !strings.ContainsAny(t, "é😀") {
				checkPositions(h, id, t+"x;", t)
			}
			if n <= 3 {
				// inside string literals, also after a backslash and inside unfinished escapes
				// (such literals are errors, but everything after them still has a position)
				for _, pre := range []string{"\"", "\"\\", "'\\x", "\"\\u00", "\"\\1"} {
					checkPositions(h, id, pre+t+pre[:1]+" x\n;", t)
				}
			}
		}
		if n == maxLen || h.TooMany() {
			return
		}
		for _, a := range alpha {
			rec(t+a, n+1)
		}
	}
	rec("", 0)
}

// checkPositions checks the text as it is and behind a UTF-8 byte-order mark: the lexer drops
// the mark, so every item must have the same offset, line and column as without it.
func checkPositions(h *hx.H, id, src, t string) {
	checkPositionsBOM(h, id, src, t, "")
	checkPositionsBOM(h, id+"/bom", src, t, "\xef\xbb\xbf")
}

func checkPositionsBOM(h *hx.H, id, src, t, bom string) {
	h.Eval(1)
	h.State(1)
	h.Trace(1)
	if strings.ContainsAny(t, "\t\né😀") {
		h.NonTrivial++
	}
	fail := func(sig, format string, args ...any) {
		h.Violate(sig, id, fmt.Sprintf("source %q: ", bom+src)+fmt.Sprintf(format, args...), nil)
	}
	defer func() {
		if p := recover(); p != nil {
			fail("position-panic", "panic: %v", p)
		}
	}()
	file, _ := parser.Parse("t.proto", bytes.NewReader([]byte(bom+src)), reporter.NewHandler(reporter.NewReporter(func(reporter.ErrorWithPos) error { return nil }, nil)))
	if file == nil {
		fail("nil-ast", "no AST")
		return
	}
	items := file.Items()
	for it, ok := items.First(); ok; it, ok = items.Next(it) {
		h.Trans(1)
		info := file.ItemInfo(it)
		st := info.Start()
		raw := info.RawText()
		if st.Offset < 0 || st.Offset+len(raw) > len(src) || src[st.Offset:st.Offset+len(raw)] != raw {
			fail("item-offset", "item %q claims offset %d", raw, st.Offset)
			return
		}
		wl, wc := refPos(src, st.Offset)
		if st.Line != wl || st.Col != wc {
			fail("start-position", "item %q at offset %d: reported %d:%d, reference %d:%d", raw, st.Offset, st.Line, st.Col, wl, wc)
			return
		}
		if len(raw) > 0 && raw[len(raw)-1] != '\n' {
			en := info.End()
			endOff := st.Offset + len(raw) // tokens: exclusive end
			if _, isComment := info.(ast.Comment); isComment {
				// comments: the API reports the position of the last byte (inclusive end)
				endOff = st.Offset + len(raw) - 1
			}
			el, ec := refPos(src, endOff)
			if en.Line != el || en.Col != ec {
				fail("end-position", "item %q: end offset %d reported as %d:%d, reference %d:%d", raw, endOff, en.Line, en.Col, el, ec)
				return
			}
		}
	}
	// every node's span starts no later than it ends
	_ = ast.Walk(file, &ast.SimpleVisitor{DoVisitNode: func(n ast.Node) error {
		ni := file.NodeInfo(n)
		if !ni.IsValid() {
			return nil
		}
		s, e := ni.Start(), ni.End()
		if s.Line > e.Line || s.Line == e.Line && s.Col > e.Col {
			fail("span-inverted", "node %T spans %d:%d .. %d:%d", n, s.Line, s.Col, e.Line, e.Col)
		}
		return nil
	}})
	if h.WantSample() && strings.Contains(t, "\t") && strings.Contains(t, "é") {
		h.Sample(map[string]any{"case": id, "source": src})
	}
}
