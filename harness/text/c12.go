package main

import (
	"bytes"
	"fmt"
	"runtime/debug"
	"strings"

	"github.com/bufbuild/protocompile/ast"
	"github.com/bufbuild/protocompile/internal/zzverif/hx"
	"github.com/bufbuild/protocompile/parser"
	"github.com/bufbuild/protocompile/reporter"
)

func init() { props["C12"] = runC12 }

func runC12(h *hx.H) {
	h.Rule = "every byte string of length <=2 over all 256 values and <=4 over a 24-byte structural alphabet (quick; <=3 over 256 and <=5 over the alphabet thorough), every token string of <=4 (quick) / <=5 (thorough) tokens over a 30-token alphabet, every message literal of <=2 (thorough 3) fields over 10 names (incl. malformed bracketed ones), optional colon, 9 values and 3 separators, every string of <=3 (thorough 4) tokens over an 18-token alphabet with invalid tokens (stray characters, bad escapes, bad numerals, unterminated literals) joined by every choice of six separators (space, newline, line comment, block comment, tab+comment+CRLF, nothing) bare and inside a message body, every single-token deletion / duplication / replacement and every truncation at a token boundary of the testdata corpus (smallest files in quick), nesting towers to depth 40; oracle: no panic in Parse / ResultFromAST, AST non-nil, error returned iff an error was reported (both reporter modes), every reported position inside the file; non-trivial = input on which the parser reported at least one error yet produced an AST"
	run := func(src []byte) {
		idx, ok := h.NextN()
		if !ok {
			return
		}
		checkParse(h, idx, src)
	}
	// bytes
	all := make([]byte, 256)
	for i := range all {
		all[i] = byte(i)
	}
	nAll, nAlpha, nTok := 2, 4, 4
	if h.Thorough() {
		nAll, nAlpha, nTok = 3, 5, 5
	}
	forEachByteString(all, nAll, func(b []byte) { run(b) })
	alpha := []byte("a1 \n\t\"'\\/*;={}[]()<>.,-:\x00\x80\xff")
	forEachByteString(alpha, nAlpha, func(b []byte) { run(b) })
	forEachTokenString(tokenAlphabet, nTok, " ", func(s string) { run([]byte(s)) })
	// token strings with invalid tokens and every separator (newlines and comments matter for the
	// lexer's comment bookkeeping across error tokens)
	mixed := []string{"message", "foo", "3", "\"s\"", "=", ";", "{", "}", "[", "@", "\x01", "\"\\q\"", "08", "0x", "'", "/*", "1e", "."}
	seps := []string{" ", "\n", " // c\n", " /* c */ ", "\t// c\r\n", ""}
	nMix := 3
	if h.Thorough() {
		nMix = 4
	}
	var recMix func(prefix string, n int)
	recMix = func(prefix string, n int) {
		for _, t := range mixed {
			for _, sp := range seps {
				if prefix == "" && sp != " " {
					continue
				}
				s := t
				if prefix != "" {
					s = prefix + sp + t
				}
				run([]byte(s))
				run([]byte(s + "\n"))
				if n+1 == nMix {
					run([]byte("message M { // c\n" + s + "\n optional int32 a = 1;\n}\n"))
				} else {
					recMix(s, n+1)
				}
			}
		}
	}
	recMix("", 0)
	// message literals: every sequence of <=2 (thorough 3) fields whose name, colon, value and
	// separator are drawn from small sets that include malformed bracketed names (the grammar's
	// error-recovery productions)
	litNames := []string{"a", "[a.b]", "[x.y/a.b]", "[1]", "[.]", "[a.b/]", "[]", "[a", "1", "\"s\""}
	litColons := []string{":", ""}
	litValues := []string{"1", "\"s\"", "{ b: 1 }", "< b: 1 >", "[1, 2]", "[", "-", "x", ""}
	litSeps := []string{"", ",", ";"}
	nLit := 2
	if h.Thorough() {
		nLit = 3
	}
	var recLit func(prefix string, n int)
	recLit = func(prefix string, n int) {
		for _, nm := range litNames {
			for _, co := range litColons {
				for _, va := range litValues {
					for _, se := range litSeps {
						body := strings.TrimSpace(prefix + " " + nm + co + " " + va + se)
						run([]byte("option (foo) = { " + body + " };\n"))
						run([]byte("message M { optional int32 f = 1 [(o) = < " + body + " >]; }\n"))
						if n+1 < nLit && co == ":" && (va == "1" || va == "{ b: 1 }") {
							recLit(body, n+1)
						}
					}
				}
			}
		}
	}
	recLit("", 0)
	// corpus mutants
	names, texts := corpus()
	limit := 60000
	if h.Thorough() {
		limit = 1 << 30
	}
	for fi, text := range texts {
		toks := splitTokens(text)
		if !h.Thorough() && len(text) > 4000 {
			continue
		}
		_ = names[fi]
		repl := []string{"message", "{", "}", ";", "=", "3", "\"s\"", "foo", "[", "(", "<", "option", "."}
		n := 0
		for i := range toks {
			if strings.TrimSpace(toks[i]) == "" {
				continue
			}
			pre, post := strings.Join(toks[:i], ""), strings.Join(toks[i+1:], "")
			run([]byte(pre + post))                   // deletion
			run([]byte(pre + toks[i] + toks[i] + post)) // duplication
			run([]byte(pre))                          // truncation
			for _, r := range repl {
				run([]byte(pre + r + post))
			}
			n += 3 + len(repl)
			if n > limit {
				break
			}
		}
	}
	// nesting towers
	for d := 1; d <= 40; d++ {
		run([]byte(strings.Repeat("message M {", d)))
		run([]byte(strings.Repeat("message M {", d) + strings.Repeat("}", d)))
		run([]byte("option (a) = " + strings.Repeat("{a:", d) + "1" + strings.Repeat("}", d) + ";"))
		run([]byte("message M { " + strings.Repeat("optional group G = 1 {", d)))
	}
}

type collect struct {
	errs []reporter.ErrorWithPos
}

func checkParse(h *hx.H, idx int64, src []byte) {
	h.Eval(1)
	h.State(1)
	h.Trans(1)
	h.Trace(1)
	id := ""
	var detail any
	fail := func(sig, format string, args ...any) {
		if id == "" {
			id = hx.CaseID(idx)
		}
		h.Violate(sig, id, fmt.Sprintf("input %q: ", truncate(src))+fmt.Sprintf(format, args...), detail)
	}
	defer func() {
		if p := recover(); p != nil {
			detail = map[string]any{"input": string(src), "stack": repoFrames(string(debug.Stack()))}
			fail("parser-panic", "panic: %v", p)
		}
	}()
	// never-aborting reporter
	var c collect
	hd := reporter.NewHandler(reporter.NewReporter(func(e reporter.ErrorWithPos) error { c.errs = append(c.errs, e); return nil }, nil))
	file, err := parser.Parse("t.proto", bytes.NewReader(src), hd)
	if file == nil {
		fail("nil-ast", "Parse returned a nil AST (err=%v)", err)
		return
	}
	if (err != nil) != (len(c.errs) > 0) {
		fail("error-iff-reported", "Parse returned err=%v but %d errors were reported", err, len(c.errs))
		return
	}
	if len(c.errs) > 0 {
		h.NonTrivial++
	}
	nlines := 1 + bytes.Count(src, []byte("\n"))
	lines := bytes.Split(src, []byte("\n"))
	for _, e := range c.errs {
		p := e.GetPosition()
		if p.Line < 1 || p.Line > nlines {
			fail("position-outside-file", "error %q reported at line %d of %d", e.Unwrap(), p.Line, nlines)
			return
		}
		maxCol := 8*len(lines[p.Line-1]) + 1
		if p.Col < 1 || p.Col > maxCol {
			fail("position-outside-file", "error %q reported at line %d column %d (line has %d bytes)", e.Unwrap(), p.Line, p.Col, len(lines[p.Line-1]))
			return
		}
		if p.Offset < 0 || p.Offset > len(src) {
			fail("position-outside-file", "error %q reported at offset %d of %d", e.Unwrap(), p.Offset, len(src))
			return
		}
	}
	// converting to a descriptor never panics, also after recovered errors
	var c2 collect
	hd2 := reporter.NewHandler(reporter.NewReporter(func(e reporter.ErrorWithPos) error { c2.errs = append(c2.errs, e); return nil }, nil))
	res, err2 := parser.ResultFromAST(file, true, hd2)
	if (err2 != nil) != (len(c2.errs) > 0) {
		fail("error-iff-reported", "ResultFromAST returned err=%v but %d errors were reported", err2, len(c2.errs))
		return
	}
	_ = res
	// default reporter: the first error is returned
	file2, err3 := parser.Parse("t.proto", bytes.NewReader(src), reporter.NewHandler(nil))
	if file2 == nil {
		fail("nil-ast", "Parse with the default reporter returned a nil AST (err=%v)", err3)
		return
	}
	if (err3 != nil) != (len(c.errs) > 0) {
		fail("error-iff-reported", "default reporter: err=%v but the collecting run saw %d errors", err3, len(c.errs))
		return
	}
	if h.WantSample() && len(c.errs) > 1 && len(src) > 10 {
		h.Sample(map[string]any{"case": hx.CaseID(idx), "input": truncate(src), "errors_reported": len(c.errs)})
	}
	_ = ast.Walk
}

func truncate(b []byte) string {
	if len(b) > 160 {
		return string(b[:80]) + "…" + string(b[len(b)-60:])
	}
	return string(b)
}

// repoFrames keeps the stack lines that point into the repository.
func repoFrames(stack string) []string {
	var out []string
	for _, l := range strings.Split(stack, "\n") {
		if strings.Contains(l, "/repo/") && !strings.Contains(l, "zzverif") {
			out = append(out, strings.TrimSpace(l))
		}
		if len(out) == 8 {
			break
		}
	}
	return out
}
