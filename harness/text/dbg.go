package main

import (
	"fmt"
	"os"
	"strconv"
	"strings"

	"github.com/bufbuild/protocompile/experimental/ast/printer"
	xparser "github.com/bufbuild/protocompile/experimental/parser"
	"github.com/bufbuild/protocompile/experimental/report"
	"github.com/bufbuild/protocompile/experimental/seq"
	"github.com/bufbuild/protocompile/experimental/source"
	"github.com/bufbuild/protocompile/internal/zzverif/hx"
)

func init() {
	props["XDBG"] = func(h *hx.H) {
		src, _ := strconv.Unquote(os.Getenv("XDBG_INPUT"))
		if f := os.Getenv("XDBG_FILE"); f != "" {
			b, _ := os.ReadFile(f)
			src = string(b)
			if os.Getenv("XDBG_CRLF") != "" {
				src = strings.ReplaceAll(src, "\n", "\r\n")
			}
			rep := &report.Report{}
			file, _ := xparser.Parse("t.proto", source.NewFile("t.proto", src), rep)
			for i := range rep.Diagnostics {
				d := &rep.Diagnostics[i]
				if d.Level() <= report.Error {
					fmt.Printf("  diag level=%d %q primary=[%d,%d) %q\n", d.Level(), d.Message(), d.Primary().Start, d.Primary().End, src[max(0, d.Primary().Start-40):min(len(src), d.Primary().End+40)])
				}
				if d.Level() == report.ICE {
					fmt.Printf("    notes=%v\n    debug=%.2500v\n", d.Notes(), d.Debug())
				}
			}
			out, _ := printer.PrintFile(printer.Options{}, file)
			i := 0
			for i < len(src) && i < len(out) && src[i] == out[i] {
				i++
			}
			lo := max(0, i-60)
			fmt.Printf("first difference at %d of %d/%d\n  src: %q\n  out: %q\n", i, len(src), len(out), src[lo:min(len(src), i+60)], out[lo:min(len(out), i+60)])
			h.Eval(1)
			return
		}
		rep := &report.Report{}
		file, ok := xparser.Parse("t.proto", source.NewFile("t.proto", src), rep)
		fmt.Printf("input %q ok=%v\n", src, ok)
		for i := range rep.Diagnostics {
			d := &rep.Diagnostics[i]
			fmt.Printf("  diag level=%d %q primary=[%d,%d)\n", d.Level(), d.Message(), d.Primary().Start, d.Primary().End)
			if d.Level() == report.ICE {
				fmt.Printf("    notes=%v\n    debug=%.1500v\n", d.Notes(), d.Debug())
			}
		}
		for tok := range file.Stream().All() {
			sp := tok.LeafSpan()
			fmt.Printf("  tok synth=%v leaf=%v kind=%v [%d,%d) %q\n", tok.IsSynthetic(), tok.IsLeaf(), tok.Kind(), sp.Start, sp.End, tok.Text())
		}
		if os.Getenv("XDBG_FORMAT") != "" {
			cur := src
			for pass := 1; pass <= 3; pass++ {
				rep := &report.Report{}
				f, _ := xparser.Parse("t.proto", source.NewFile("t.proto", cur), rep)
				o, err := printer.PrintFile(printer.Options{Format: true, Formatting: printer.Default()}, f)
				fmt.Printf("  format pass %d: %q %v\n", pass, o, err)
				cur = o
			}
			h.Eval(1)
			return
		}
		out, err := printer.PrintFile(printer.Options{}, file)
		fmt.Printf("  PrintFile %q %v\n", out, err)
		for d := range seq.Values(file.Decls()) {
			fmt.Printf("  Print(decl) %q kind=%v\n", printer.Print(printer.Options{}, d), d.Kind())
			if def := d.AsDef(); !def.IsZero() {
				fmt.Printf("    def classify=%v keyword=%q name=%q type=%q equals=%q value=%q\n", def.Classify(), def.KeywordToken().Text(), def.Name().Span().Text(), def.Type().Span().Text(), def.Equals().Text(), def.Value().Span().Text())
			}
		}
		h.Eval(1)
	}
}
