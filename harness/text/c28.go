package main

import (
	"fmt"
	"runtime/debug"
	"strings"
	"unicode/utf8"

	"github.com/bufbuild/protocompile/experimental/ast"
	"github.com/bufbuild/protocompile/experimental/ast/printer"
	xparser "github.com/bufbuild/protocompile/experimental/parser"
	"github.com/bufbuild/protocompile/experimental/report"
	"github.com/bufbuild/protocompile/experimental/seq"
	"github.com/bufbuild/protocompile/experimental/source"
	"github.com/bufbuild/protocompile/experimental/token"
	"github.com/bufbuild/protocompile/experimental/token/keyword"
	"github.com/bufbuild/protocompile/internal/zzverif/hx"
)

func init() {
	props["C28"] = func(h *hx.H) { runX(h, "C28") }
	props["C29"] = func(h *hx.H) { runX(h, "C29") }
	props["C30"] = func(h *hx.H) { runX(h, "C30") }
}

var celAlphabet = []string{"?", ":", "&&", "||", "+", "(", ")", "[", "]", "foo", "1", "\"s\"", "!", "==", ".", ","}

// runX enumerates the shared input space of the experimental lexer / parser /
// printer properties; which oracle runs depends on prop.
func runX(h *hx.H, prop string) {
	switch prop {
	case "C28":
		h.Rule = "inputs: every byte string <=2 over 256 values and <=4 over a structural alphabet, every string of <=3 (thorough 4) runes over a 20-rune Unicode alphabet (non-ASCII letters, digits and marks, format characters, BOM, odd spaces and line separators, emoji, U+FFFD) bare and inside a message body, every token string <=4 over a 30-token Protobuf alphabet and <=4 over a CEL-like alphabet inside an option value, corpus single-token mutants and truncations, nesting towers (thorough: one more symbol each); oracle: no panic escapes, no diagnostic of level ICE, ok <=> no diagnostic of severity Error or worse, every annotation span within the file; non-trivial = input with >=1 error diagnostic"
	case "C29":
		h.Rule = "same inputs as C28; oracle: the natural tokens in stream order are contiguous from 0 to len(text), their texts concatenate to the input, and every open bracket token is fused with a close token of the matching kind that lies after it (or the lexer reported an error); non-trivial = input with a bracket or an unterminated string/comment"
	case "C30":
		h.Rule = "same inputs as C28 plus separator/trivia variants, with zero, one and two final newlines, plus every arrangement of <=2 (thorough <=3) non-default trivia values from a 14-value set in the slots of three declaration skeletons (message literal without separators, compact options, rpc signatures, ranges, map types); for every input without error diagnostics: PrintFile(round-trip options) == input and the concatenation of Print(decl) over the top-level declarations is a prefix of the input whose remainder is trivia only; non-trivial = accepted input containing a comment, tab or CR"
	}
	run := func(src string) {
		idx, ok := h.NextN()
		if !ok {
			return
		}
		checkX(h, prop, idx, src)
	}
	all := make([]byte, 256)
	for i := range all {
		all[i] = byte(i)
	}
	nAll, nAlpha, nTok := 2, 4, 4
	if h.Thorough() {
		nAll, nAlpha, nTok = 3, 5, 5
	}
	if prop == "C30" {
		nAll, nAlpha = 1, 3 // printer inputs must parse without errors; raw bytes rarely do
	}
	forEachByteString(all, nAll, func(b []byte) { run(string(b)) })
	forEachByteString([]byte("a1 \n\t\"'\\/*;={}[]()<>.,-:\x00\x80\xff"), nAlpha, func(b []byte) { run(string(b)) })
	// strings of runes from the corners of Unicode that lexers treat specially (letters, digits and
	// marks outside ASCII, format characters, the BOM in the middle, odd spaces and line breaks)
	runeAlpha := []string{"a", "1", "_", " ", "\n", "é", "\u200d", "\u00ad", "\ufeff", "\u0301", "\u2028", "\u00a0", "😀", "\u0660", "\"", "/", ".", "\ufffd", ";", "="}
	nRune := 3
	if h.Thorough() {
		nRune = 4
	}
	var recR func(t string, n int)
	recR = func(t string, n int) {
		run(t)
		if n > 0 {
			run("message M { " + t + " }")
		}
		if n == nRune {
			return
		}
		for _, r := range runeAlpha {
			recR(t+r, n+1)
		}
	}
	recR("", 0)
	forEachTokenString(tokenAlphabet, nTok, " ", func(s string) {
		run(s)
		if prop == "C30" {
			run(s + "\n")
			run(s + "\n\n")
			run(s + " // c")
			run("\t" + strings.ReplaceAll(s, " ", "\r\n") + "\r\n")
			run("/* c */ " + strings.ReplaceAll(s, " ", " /* d */ ") + "\n")
			run(strings.ReplaceAll(s, " ", "\n") + "\n")
			run(strings.ReplaceAll(s, " ", "\n\n") + "\n")
			run(strings.ReplaceAll(s, " ", " // c\n") + "\n")
			run(strings.ReplaceAll(s, " ", "  ") + "\n")
		}
	})
	forEachTokenString(celAlphabet, nTok, " ", func(s string) {
		run("option (x) = " + s + ";\n")
		run("message M { option (buf.validate.message).cel = { expression: " + s + " }; }\n")
		if prop == "C30" {
			run("message M {\noption (x) = {\nexpression:\n" + strings.ReplaceAll(s, " ", "\n") + "\n}\n;\n}\n")
		}
	})
	if prop == "C30" {
		dev, win := 2, 4
		if h.Thorough() {
			dev, win = 3, 3
		}
		for _, skel := range layoutSkeletons {
			forEachLayout(skel, layoutTrivia, dev, win, run)
		}
	}
	names, texts := corpus()
	_ = names
	limit := 40000
	if h.Thorough() {
		limit = 1 << 30
	}
	for _, text := range texts {
		run(text)
		run(strings.ReplaceAll(text, "\n", "\r\n"))
		run(strings.TrimRight(text, "\n"))
		if !h.Thorough() && len(text) > 4000 {
			continue
		}
		toks := splitTokens(text)
		repl := []string{"message", "{", "}", ";", "=", "3", "\"s\"", "foo", "[", "(", "<", "option", "."}
		n := 0
		for i := range toks {
			if strings.TrimSpace(toks[i]) == "" {
				continue
			}
			pre, post := strings.Join(toks[:i], ""), strings.Join(toks[i+1:], "")
			run(pre + post)
			run(pre + toks[i] + toks[i] + post)
			run(pre)
			for _, r := range repl {
				run(pre + r + post)
			}
			n += 3 + len(repl)
			if n > limit {
				break
			}
		}
	}
	for d := 1; d <= 40; d++ {
		run(strings.Repeat("message M {", d))
		run(strings.Repeat("message M {", d) + strings.Repeat("}", d))
		run("option (a) = " + strings.Repeat("{a:", d) + "1" + strings.Repeat("}", d) + ";")
		run("option (a) = " + strings.Repeat("(", d) + "1" + strings.Repeat(")", d) + ";")
		run("option (a) = " + strings.Repeat("[", d))
	}
}

func checkX(h *hx.H, prop string, idx int64, src string) {
	h.Eval(1)
	h.State(1)
	h.Trans(1)
	var detail any
	fail := func(sig, format string, args ...any) {
		h.Violate(sig, hx.CaseID(idx), fmt.Sprintf("input %q: ", truncate([]byte(src)))+fmt.Sprintf(format, args...), detail)
	}
	defer func() {
		if p := recover(); p != nil {
			detail = map[string]any{"input": src, "stack": repoFrames(string(debug.Stack()))}
			fail("xparser-panic", "panic: %v", p)
		}
	}()
	rep := &report.Report{}
	file, ok := xparser.Parse("t.proto", source.NewFile("t.proto", src), rep)
	h.Trace(1)
	hasErr, hasICE := false, false
	for i := range rep.Diagnostics {
		d := &rep.Diagnostics[i]
		if d.Level() == report.ICE {
			hasICE = true
		}
		if d.Level() <= report.Error {
			hasErr = true
		}
	}
	switch prop {
	case "C28":
		if hasErr {
			h.NonTrivial++
		}
		if hasICE {
			detail = map[string]any{"input": src}
			fail("xparser-ice", "internal compiler error diagnostic: %v", rep.Diagnostics[0].Message())
			return
		}
		if ok != !hasErr {
			sig := "ok-flag"
			fail(sig, "Parse returned ok=%v but error diagnostics present=%v (%d diagnostics)", ok, hasErr, len(rep.Diagnostics))
			return
		}
		// every span inside the file: serialise and inspect all annotations
		if msg := spansInside(rep, len(src)); msg != "" {
			fail("span-outside-file", "%s", msg)
			return
		}
	case "C29":
		if file == nil {
			fail("nil-file", "no file")
			return
		}
		checkTiling(h, fail, file, rep, src)
	case "C30":
		if file == nil || hasErr {
			h.Count("inputs_with_errors", 1)
			return
		}
		checkPrint(h, fail, file, src, idx)
	}
}

func spansInside(rep *report.Report, n int) string {
	for i := range rep.Diagnostics {
		d := &rep.Diagnostics[i]
		p := d.Primary()
		if !p.IsZero() && (p.Start < 0 || p.Start > p.End || p.End > n) {
			return fmt.Sprintf("diagnostic %q has primary span [%d,%d) in a file of %d bytes", d.Message(), p.Start, p.End, n)
		}
	}
	// all annotations (not only the primary one) through the serialised form
	type annot interface {
		GetStart() uint32
		GetEnd() uint32
	}
	pr := rep.ToProto()
	_ = pr
	return spansFromProto(pr, n)
}

func checkTiling(h *hx.H, fail func(string, string, ...any), file *ast.File, rep *report.Report, src string) {
	// Recorded finding: the lexer deliberately refuses (error, no tokens at all) inputs that are
	// not valid UTF-8 or look like UTF-16 (UTF-16 byte-order mark, NUL among the first two bytes).
	refuses := !utf8.ValidString(src) || strings.HasPrefix(src, "\xfe\xff") || strings.HasPrefix(src, "\xff\xfe") || len(src) >= 2 && (src[0] == 0 || src[1] == 0)
	if refuses {
		n := 0
		for tok := range file.Stream().All() {
			if !tok.IsSynthetic() {
				n++
			}
		}
		if n == 0 && len(rep.Diagnostics) > 0 && rep.Diagnostics[0].Level() == report.Error {
			fail("lexer-refuses-non-utf8-input", "the lexer reports %q and produces no tokens", rep.Diagnostics[0].Message())
			return
		}
	}
	pos := 0
	var text strings.Builder
	brackets := false
	anyErr := len(rep.Diagnostics) > 0
	for tok := range file.Stream().All() {
		if tok.IsSynthetic() {
			continue
		}
		sp := tok.LeafSpan()
		if sp.Start != pos {
			fail("tokens-gap-or-overlap", "token %q starts at %d, previous token ended at %d", tok.Text(), sp.Start, pos)
			return
		}
		if sp.End < sp.Start {
			fail("token-inverted", "token at %d has end %d", sp.Start, sp.End)
			return
		}
		pos = sp.End
		text.WriteString(src[sp.Start:sp.End])
		if !tok.IsLeaf() {
			brackets = true
			start, end := tok.StartEnd()
			if start.IsZero() || end.IsZero() || start.IsSynthetic() != end.IsSynthetic() && !anyErr {
				fail("bracket-unmatched", "bracket token %q has no partner and no error was reported", tok.Text())
				return
			}
			if !end.IsSynthetic() && !start.IsSynthetic() {
				a, b := start.LeafSpan(), end.LeafSpan()
				if a.Start >= b.Start {
					fail("bracket-order", "open bracket at %d is not before its close at %d", a.Start, b.Start)
					return
				}
				o, c := src[a.Start:a.End], src[b.Start:b.End]
				match := map[string]string{"(": ")", "[": "]", "{": "}", "<": ">", "/*": "*/"}
				if c == "" && anyErr {
					// an unmatched open bracket is closed by an empty token at the end of the file; it was reported
				} else if want, known := match[o]; known && want != c {
					fail("bracket-kind", "open %q fused with close %q", o, c)
					return
				}
			}
		} else if k := tok.Keyword(); (k == keyword.LParen || k == keyword.LBracket || k == keyword.LBrace || k == keyword.RParen || k == keyword.RBracket || k == keyword.RBrace) && tok.Kind() == token.Keyword {
			// a bracket character left as a leaf token must have been reported
			brackets = true
			if !anyErr {
				fail("bracket-unmatched", "stray bracket %q was not reported", tok.Text())
				return
			}
		}
	}
	if pos != len(src) {
		fail("tokens-do-not-cover", "tokens end at %d of %d bytes", pos, len(src))
		return
	}
	if text.String() != src {
		fail("tokens-text", "concatenated token text differs from the input")
		return
	}
	if brackets || strings.ContainsAny(src, "\"'") {
		h.NonTrivial++
	}
}

func checkPrint(h *hx.H, fail func(string, string, ...any), file *ast.File, src string, idx int64) {
	if strings.ContainsAny(src, "\t\r/") {
		h.NonTrivial++
	}
	got, err := printer.PrintFile(printer.Options{}, file)
	if err != nil {
		fail("print-error", "PrintFile: %v", err)
		return
	}
	if got != src {
		// the recorded finding: only the final newline run is normalised to exactly one newline
		const ws = " \t\r\n\f\v"
		sig := "print-roundtrip:" + diffClass(src, got)
		if strings.TrimRight(src, ws) == strings.TrimRight(got, ws) && strings.HasSuffix(got, "\n") {
			// everything up to the trailing whitespace run is reproduced; only that run differs and the output ends in a newline
			sig = "print-normalises-final-newlines"
		}
		fail(sig, "PrintFile gives %q; %s", truncate([]byte(got)), diffWindow(src, got))
		if sig != "print-normalises-final-newlines" {
			return
		}
	}
	var b strings.Builder
	for d := range seq.Values(file.Decls()) {
		b.WriteString(printer.Print(printer.Options{}, d))
	}
	parts := b.String()
	if !strings.HasPrefix(src, parts) {
		sig := "print-decls"
		noSp := func(s string) string { return strings.NewReplacer(" ", "", "\t", "").Replace(s) }
		if strings.HasPrefix(noSp(src), noSp(parts)) {
			// recorded finding: blanks (never newlines or comments) between two declarations
			// on one line belong to neither declaration's printout
			sig = "print-decls-drop-inline-blanks"
		}
		fail(sig, "concatenated Print(decl) gives %q, which is not a prefix of the input", truncate([]byte(parts)))
		return
	}
	rest := src[len(parts):]
	// what is left must be trivia only: every token that starts there is a space or a comment
	// (the lexer, not this check, says what counts as a blank - e.g. a byte-order mark)
	for tok := range file.Stream().All() {
		if tok.IsSynthetic() {
			continue
		}
		if sp := tok.LeafSpan(); sp.Start >= len(parts) && !tok.Kind().IsSkippable() {
			fail("print-decls", "concatenated Print(decl) stops before non-trivia text %q", truncate([]byte(rest)))
			return
		}
	}
	if h.WantSample() && strings.Contains(src, "/*") && len(src) < 200 {
		h.Sample(map[string]any{"case": hx.CaseID(idx), "source": src})
	}
}

func stripComments(s string) string {
	var b strings.Builder
	for i := 0; i < len(s); {
		switch {
		case strings.HasPrefix(s[i:], "//"):
			j := strings.IndexByte(s[i:], '\n')
			if j < 0 {
				return b.String()
			}
			i += j
		case strings.HasPrefix(s[i:], "/*"):
			j := strings.Index(s[i+2:], "*/")
			if j < 0 {
				return b.String()
			}
			i += j + 4
		default:
			b.WriteByte(s[i])
			i++
		}
	}
	return b.String()
}

// diffClass names the kind of difference between a source text and its printout, so that
// distinct printer defects get distinct signatures: "text" when non-blank characters were
// lost, added or changed (with the first differing pair), otherwise "blanks" with the
// non-blank characters on either side of the first differing whitespace run.
func diffClass(src, got string) string {
	isWS := func(c byte) bool { return c == ' ' || c == '\t' || c == '\r' || c == '\n' || c == '\f' || c == '\v' }
	strip := func(s string) string {
		var b strings.Builder
		for i := 0; i < len(s); i++ {
			if !isWS(s[i]) {
				b.WriteByte(s[i])
			}
		}
		return b.String()
	}
	cls := func(c byte) string {
		switch {
		case c == 0:
			return "edge"
		case c == '_' || c >= '0' && c <= '9' || c >= 'a' && c <= 'z' || c >= 'A' && c <= 'Z':
			return "word"
		case c >= 0x80:
			return "nonascii"
		}
		return string(c)
	}
	a, b := strip(src), strip(got)
	if a != b {
		i := 0
		for i < len(a) && i < len(b) && a[i] == b[i] {
			i++
		}
		var x, y byte
		if i < len(a) {
			x = a[i]
		}
		if i < len(b) {
			y = b[i]
		}
		return "text:" + cls(x) + "->" + cls(y)
	}
	i := 0
	for i < len(src) && i < len(got) && src[i] == got[i] {
		i++
	}
	// widen to the whole whitespace run around the first difference in the source
	lo := i
	for lo > 0 && isWS(src[lo-1]) {
		lo--
	}
	hi := i
	for hi < len(src) && isWS(src[hi]) {
		hi++
	}
	var l, r byte
	if lo > 0 {
		l = src[lo-1]
	}
	if hi < len(src) {
		r = src[hi]
	}
	return "blanks:" + cls(l) + "_" + cls(r)
}

// diffWindow renders the surroundings of the first difference between two texts.
func diffWindow(a, b string) string {
	i := 0
	for i < len(a) && i < len(b) && a[i] == b[i] {
		i++
	}
	lo := max(0, i-30)
	return fmt.Sprintf("first difference at byte %d: source %q, printed %q", i, a[lo:min(len(a), i+30)], b[lo:min(len(b), i+30)])
}
