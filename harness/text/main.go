// Harness for the text-level properties of the stable parser (C11, C12, C13,
// C25) and of the experimental lexer/parser/printer (C28, C29, C30): exhaustive
// enumeration of byte strings, token strings, layouts and corpus mutants.
package main

import (
	"os"
	"path/filepath"
	"sort"
	"strings"

	"github.com/bufbuild/protocompile/internal/zzverif/hx"
)

var props = map[string]func(h *hx.H){}

func main() {
	prop := ""
	for i, a := range os.Args {
		if a == "-prop" && i+1 < len(os.Args) {
			prop = os.Args[i+1]
			os.Args = append(os.Args[:i], os.Args[i+2:]...)
			break
		}
	}
	hx.Main(prop, func(h *hx.H) {
		f, ok := props[prop]
		if !ok {
			h.Infra = append(h.Infra, "unknown property "+prop)
			return
		}
		f(h)
	})
}

// ---- shared generators ----

var tokenAlphabet = []string{"syntax", "message", "enum", "option", "import", "package", "extend", "oneof", "map", "reserved", "rpc", "returns",
	"foo", "3", "\"s\"", "1.5", "=", ";", "{", "}", "[", "]", "(", ")", "<", ">", ".", ",", "-", ":"}

// forEachTokenString enumerates every string of 1..maxLen alphabet tokens joined by sep.
func forEachTokenString(alpha []string, maxLen int, sep string, f func(s string)) {
	var rec func(prefix string, n int)
	rec = func(prefix string, n int) {
		for _, t := range alpha {
			s := t
			if prefix != "" {
				s = prefix + sep + t
			}
			f(s)
			if n+1 < maxLen {
				rec(s, n+1)
			}
		}
	}
	rec("", 0)
}

// forEachByteString enumerates every byte string of length 0..maxLen over alpha.
func forEachByteString(alpha []byte, maxLen int, f func(b []byte)) {
	buf := make([]byte, 0, maxLen)
	var rec func()
	rec = func() {
		f(buf)
		if len(buf) == maxLen {
			return
		}
		for _, c := range alpha {
			buf = append(buf, c)
			rec()
			buf = buf[:len(buf)-1]
		}
	}
	rec()
}

// corpus returns the .proto files of the repository's testdata, smallest first.
func corpus() (names []string, texts []string) {
	root := os.Getenv("VERIF_REPO")
	if root == "" {
		root = "/repo"
	}
	var all []string
	filepath.Walk(filepath.Join(root, "internal/testdata"), func(p string, info os.FileInfo, err error) error {
		if err == nil && !info.IsDir() && strings.HasSuffix(p, ".proto") {
			all = append(all, p)
		}
		return nil
	})
	type ft struct {
		n string
		t string
	}
	var fs []ft
	for _, p := range all {
		b, err := os.ReadFile(p)
		if err == nil {
			fs = append(fs, ft{strings.TrimPrefix(p, root+"/"), string(b)})
		}
	}
	sort.Slice(fs, func(i, j int) bool {
		if len(fs[i].t) != len(fs[j].t) {
			return len(fs[i].t) < len(fs[j].t)
		}
		return fs[i].n < fs[j].n
	})
	for _, f := range fs {
		names = append(names, f.n)
		texts = append(texts, f.t)
	}
	return
}

// splitTokens cuts a source text into coarse lexical pieces (identifiers, numbers,
// strings, comments, whitespace runs, single punctuation), such that concatenating
// the pieces gives the text back. Used to build single-token mutants.
func splitTokens(s string) []string {
	var out []string
	i := 0
	isWord := func(c byte) bool {
		return c == '_' || c >= '0' && c <= '9' || c >= 'a' && c <= 'z' || c >= 'A' && c <= 'Z'
	}
	for i < len(s) {
		j := i
		c := s[i]
		switch {
		case c == ' ' || c == '\t' || c == '\n' || c == '\r':
			for j < len(s) && (s[j] == ' ' || s[j] == '\t' || s[j] == '\n' || s[j] == '\r') {
				j++
			}
		case isWord(c):
			for j < len(s) && (isWord(s[j]) || s[j] == '.' && j+1 < len(s) && isWord(s[j+1])) {
				j++
			}
		case c == '"' || c == '\'':
			j++
			for j < len(s) && s[j] != c && s[j] != '\n' {
				if s[j] == '\\' {
					j++
				}
				j++
			}
			if j < len(s) {
				j++
			}
		case c == '/' && i+1 < len(s) && s[i+1] == '/':
			for j < len(s) && s[j] != '\n' {
				j++
			}
		case c == '/' && i+1 < len(s) && s[i+1] == '*':
			k := strings.Index(s[i+2:], "*/")
			if k < 0 {
				j = len(s)
			} else {
				j = i + 2 + k + 2
			}
		default:
			j++
		}
		if j > len(s) {
			j = len(s)
		}
		out = append(out, s[i:j])
		i = j
	}
	return out
}

// layoutSkeletons are token skeletons whose inter-token slots take trivia values (G-layout).
var layoutSkeletons = [][]string{
	// file header, option with a message literal without separators, compact options with an extension name
	{"syntax", "=", "\"proto2\"", ";", "package", "a", ".", "b", ";", "import", "public", "\"x.proto\"", ";",
		"option", "(", "o", ")", "=", "{", "a", ":", "1", "b", ":", "\"s\"", "c", "{", "d", ":", "2", "}", "e", ":", "[", "1", ",", "2", "]", "}", ";"},
	// message with fields, compact options, nested message, oneof, map, reserved, extensions
	{"message", "M", "{", "optional", "int32", "a", "=", "1", "[", "deprecated", "=", "true", ",", "(", "x", ".", "y", ")", "=", "2", "]", ";",
		"oneof", "o", "{", "string", "s", "=", "2", ";", "}", "map", "<", "int32", ",", "string", ">", "m", "=", "3", ";",
		"reserved", "5", "to", "7", ",", "9", ";", "extensions", "100", "to", "max", ";", "message", "N", "{", "}", "}"},
	// enum, service with rpc signature and body, extend
	{"enum", "E", "{", "option", "allow_alias", "=", "true", ";", "A", "=", "0", ";", "B", "=", "0", "[", "deprecated", "=", "true", "]", ";", "}",
		"service", "S", "{", "rpc", "R", "(", "stream", "M", ")", "returns", "(", ".", "a", ".", "M", ")", "{", "option", "deprecated", "=", "true", ";", "}", "rpc", "Q", "(", "M", ")", "returns", "(", "M", ")", ";", "}",
		"extend", "M", "{", "optional", "string", "x", "=", "100", ";", "}"},
}

var layoutTrivia = []string{"", "\n", "\n\n", "\t", "\r\n", "// c\n", "/* c */", " /* c\n c */ ", " /* c */\n", " // c\n\n", "\n// c\n// d\n", "\n// c\n", "\n\n// c\n\n", "  "}

// forEachLayout enumerates every text obtained from skel by putting a non-default trivia value
// into at most maxDev slots (a slot precedes every token and one follows the last; the default
// is one space, and a newline at the end). With window > 0 the second and third deviating slots
// lie within that many slots of the previous one (or at the very end).
func forEachLayout(skel []string, trivia []string, maxDev, window int, f func(s string)) {
	n := len(skel)
	build := func(slots map[int]string) string {
		var b strings.Builder
		for i, t := range skel {
			if v, ok := slots[i]; ok {
				b.WriteString(v)
			} else if i > 0 {
				b.WriteString(" ")
			}
			b.WriteString(t)
		}
		if v, ok := slots[n]; ok {
			b.WriteString(v)
		} else {
			b.WriteString("\n")
		}
		return b.String()
	}
	slots := map[int]string{}
	var rec func(from, left int)
	rec = func(from, left int) {
		f(build(slots))
		if left == 0 {
			return
		}
		for i := from; i <= n; i++ {
			if window > 0 && len(slots) > 0 && i-from >= window && i != n {
				continue
			}
			for _, v := range trivia {
				slots[i] = v
				rec(i+1, left-1)
			}
			delete(slots, i)
		}
	}
	rec(0, maxDev)
}
