package main

import (
	"fmt"

	"google.golang.org/protobuf/proto"
	"google.golang.org/protobuf/reflect/protoreflect"
)

// spansFromProto walks the serialised report generically (the generated Go
// package is internal to the repository's own tree, so reflection is used) and
// checks every annotation's start/end against the length of its file.
func spansFromProto(m proto.Message, _ int) string {
	r := m.ProtoReflect()
	fd := r.Descriptor().Fields()
	files := r.Get(fd.ByName("files")).List()
	lens := make([]int, files.Len())
	for i := 0; i < files.Len(); i++ {
		f := files.Get(i).Message()
		lens[i] = len(f.Get(f.Descriptor().Fields().ByName("text")).Bytes())
	}
	diags := r.Get(fd.ByName("diagnostics")).List()
	for i := 0; i < diags.Len(); i++ {
		d := diags.Get(i).Message()
		anns := d.Get(d.Descriptor().Fields().ByName("annotations")).List()
		for j := 0; j < anns.Len(); j++ {
			a := anns.Get(j).Message()
			get := func(n string) uint64 {
				return a.Get(a.Descriptor().Fields().ByName(protoreflect.Name(n))).Uint()
			}
			fi, st, en := int(get("file")), int(get("start")), int(get("end"))
			if fi >= len(lens) || st > en || en > lens[fi] {
				return fmt.Sprintf("diagnostic %d annotation %d spans [%d,%d) in a file of %d bytes", i, j, st, en, lens[min(fi, len(lens)-1)])
			}
		}
	}
	return ""
}
