package main

import (
	"fmt"
	"strings"

	"github.com/bufbuild/protocompile/ast"
	"github.com/bufbuild/protocompile/internal/zzverif/hx"
	"github.com/bufbuild/protocompile/parser"
	"github.com/bufbuild/protocompile/parser/fastscan"
	"github.com/bufbuild/protocompile/reporter"
)

func init() { props["C25"] = runC25 }

// C25: for every input the full parser accepts, fastscan.Scan returns no error, the same
// package and the same imports (path, public, weak, option) in the same order.
func runC25(h *hx.H) {
	h.Rule = "inputs: every sequence of <=3 (thorough 4) complete declarations out of 13 (imports of every kind, package, and declarations that contain angle, square, round and curly brackets), every arrangement of <=2 (thorough <=3) non-default trivia values in the slots of two header skeletons (syntax, package, three imports incl. public/weak, an option whose message literal contains the words import/package, strings with escapes and quotes, `<`/`>` literals, a message using map<>), every token string of <=4 (thorough <=5) tokens over a header alphabet, every block and line comment body of <=4 (thorough 5) characters over {*, /, space, a, LF, quotes} placed before and between the statements, every import-path literal spelling over an escape alphabet (incl. adjacent string concatenation), every corpus file and its CRLF/BOM variants and single-token mutants; for every input the full parser accepts: fastscan.Scan error == nil and package/imports equal those in the AST; non-trivial = accepted input with >=1 import or a package"
	check := func(src string) {
		idx, run := h.NextN()
		if !run {
			return
		}
		checkScan(h, idx, src)
	}
	skels := [][]string{
		{"syntax", "=", "\"proto2\"", ";", "package", "a", ".", "b", ";", "import", "\"x.proto\"", ";", "import", "public", "\"y.proto\"", ";", "import", "weak", "\"z.proto\"", ";",
			"option", "(", "o", ")", "=", "{", "import", ":", "\"import \\\"q.proto\\\";\"", "package", ":", "<", "a", ":", "1", ">", "}", ";",
			"message", "M", "{", "map", "<", "int32", ",", "string", ">", "m", "=", "1", ";", "}"},
		{"edition", "=", "\"2023\"", ";", "import", "'a.proto'", ";", "option", "java_package", "=", "\"package x; import 'n.proto';\"", ";", "package", "p", ";",
			"import", "\"b\"", "\".proto\"", ";", "message", "import", "{", "optional", "package", "import", "=", "1", ";", "}", "import", "public", "\"c.proto\"", ";"},
	}
	dev, win := 2, 4
	if h.Thorough() {
		dev, win = 3, 3
	}
	for _, sk := range skels {
		forEachLayout(sk, layoutTrivia, dev, win, check)
	}
	// every comment body of <=4 (thorough 5) characters over the delimiter alphabet, as a block and
	// as a line comment, in front of and between the statements the scanner has to find
	nc := 4
	if h.Thorough() {
		nc = 5
	}
	forEachByteString([]byte("*/ a\n\"'"), nc, func(b []byte) {
		body := string(b)
		// a body that contains the terminator simply ends the comment early; both parsers see the same text
		check("/*" + body + "*/package p; import \"a.proto\";")
		check("package p; /*" + body + "*/ import \"a.proto\"; /*" + body + "*/ import public 'b.proto';")
		if !strings.Contains(body, "\n") {
			check("//" + body + "\npackage p; import \"a.proto\";")
			check("package p; //" + body + "\nimport \"a.proto\";")
		}
	})
	alpha := []string{"syntax", "=", "\"proto3\"", ";", "package", "import", "public", "weak", "\"a.proto\"", "foo", ".", "option", "{", "}", "message", "'b'", "<", ">", "(", ")", "[", "]", "3", "option", "-", ","}
	nTok := 4
	if h.Thorough() {
		nTok = 5
	}
	forEachTokenString(alpha, nTok, " ", func(s string) {
		check(s)
		check("syntax = \"proto3\"; " + s)
		check(s + " message M {}")
	})
	// every sequence of <=3 (thorough 4) complete declarations: imports and the package statement
	// after (and between) declarations that contain every kind of bracket
	decls := []string{
		"import \"a.proto\";", "import public 'b.proto';", "import weak \"c.proto\";", "package foo.bar;",
		"message Foo { map<string, string> m = 1; }",
		"option (my.opt) = { inner < a: 1 > };",
		"message M { optional int32 a = 1 [(o) = <a: 1 b <c: 2>>, deprecated = true]; }",
		"option (o) = \"<\";", "option (o) = { s: '>' t: [1, 2] };",
		"service S { rpc R(M) returns (stream M) { option (x) = <>; } }",
		"enum E { A = 0 [(o) = {}]; }", "extend Foo { optional int32 x = 100; }", ";",
	}
	nDecl := 3
	if h.Thorough() {
		nDecl = 4
	}
	var recDecl func(prefix string, n int)
	recDecl = func(prefix string, n int) {
		for _, d := range decls {
			s := strings.TrimSpace(prefix + " " + d)
			check(s)
			check("syntax = \"proto3\";\n" + strings.ReplaceAll(s, "; ", ";\n"))
			if n+1 < nDecl {
				recDecl(s, n+1)
			}
		}
	}
	recDecl("", 0)
	// import path spellings
	esc := []string{"a", "\\n", "\\\\", "\\\"", "\\'", "\\x41", "\\101", "\\u0041", "\\U00000041", "\\0", "é", "/", ".", "\\x", "\\8", "\" \"", "' '", "\"\n\""}
	nEsc := 3
	if h.Thorough() {
		nEsc = 4
	}
	var rec func(body string, n int)
	rec = func(body string, n int) {
		check("import \"" + body + "\";")
		check("import '" + body + "';")
		check("syntax = \"proto2\";\npackage q;\nimport public \"" + body + "\"; import weak 'w';")
		if n == nEsc {
			return
		}
		for _, e := range esc {
			rec(body+e, n+1)
		}
	}
	rec("", 0)
	_, texts := corpus()
	for _, t := range texts {
		check(t)
		check("\xef\xbb\xbf" + t)
		check(strings.ReplaceAll(t, "\n", "\r\n"))
		if len(t) > 6000 && !h.Thorough() {
			continue
		}
		toks := splitTokens(t)
		for i := range toks {
			if strings.TrimSpace(toks[i]) == "" {
				continue
			}
			pre, post := strings.Join(toks[:i], ""), strings.Join(toks[i+1:], "")
			check(pre + post)
			check(pre + toks[i] + toks[i] + post)
			for _, r := range []string{"import", "package", "\"s\"", "{", "}", ";", "<", "public"} {
				check(pre + r + post)
			}
		}
	}
}

type impRec struct {
	path                 string
	public, weak, option bool
}

func checkScan(h *hx.H, idx int64, src string) {
	h.Eval(1)
	h.State(1)
	h.Trans(1)
	fail := func(sig, format string, args ...any) {
		h.Violate(sig, hx.CaseID(idx), fmt.Sprintf("input %q: ", truncate([]byte(src)))+fmt.Sprintf(format, args...), map[string]any{"input": src})
	}
	defer func() {
		if p := recover(); p != nil {
			fail("fastscan-panic", "panic: %v", p)
		}
	}()
	rep := reporter.NewHandler(reporter.NewReporter(func(reporter.ErrorWithPos) error { return nil }, nil))
	file, err := parser.Parse("t.proto", strings.NewReader(src), rep)
	accepted := err == nil && file != nil
	if accepted {
		// the full parser's notion of acceptance includes the basic validation that
		// produces a descriptor from the AST
		if _, err := parser.ResultFromAST(file, true, rep); err != nil {
			accepted = false
		}
	}
	res, serr := fastscan.Scan("t.proto", strings.NewReader(src))
	h.Trace(1)
	if !accepted {
		h.Count("rejected_by_full_parser", 1)
		return
	}
	var pkg string
	var imps []impRec
	for _, d := range file.Decls {
		switch d := d.(type) {
		case *ast.PackageNode:
			pkg = string(d.Name.AsIdentifier())
		case *ast.ImportNode:
			r := impRec{path: d.Name.AsString(), public: d.Public != nil, weak: d.Weak != nil}
			if d.Modifier != nil {
				switch d.Modifier.Val {
				case "public":
					r.public = true
				case "weak":
					r.weak = true
				case "option":
					r.option = true
				}
			}
			imps = append(imps, r)
		}
	}
	if pkg != "" || len(imps) > 0 {
		h.NonTrivial++
	}
	if serr != nil {
		fail("fastscan-error-on-accepted-input", "the full parser accepts the input but fastscan.Scan returns %v", serr)
		return
	}
	if res.PackageName != pkg {
		fail("fastscan-package", "package: full parser %q, fastscan %q", pkg, res.PackageName)
		return
	}
	var got []impRec
	for _, i := range res.Imports {
		got = append(got, impRec{i.Path, i.IsPublic, i.IsWeak, i.IsOption})
	}
	if fmt.Sprint(got) != fmt.Sprint(imps) {
		fail("fastscan-imports", "imports: full parser %v, fastscan %v", imps, got)
		return
	}
	if h.WantSample() && len(imps) > 1 && len(src) < 300 {
		h.Sample(map[string]any{"case": hx.CaseID(idx), "source": src, "package": pkg, "imports": fmt.Sprint(imps)})
	}
}
