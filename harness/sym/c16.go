package main

import (
	"fmt"
	"sort"
	"strings"

	"google.golang.org/protobuf/reflect/protoreflect"

	"github.com/bufbuild/protocompile/ast"
	"github.com/bufbuild/protocompile/internal/zzverif/coop"
	"github.com/bufbuild/protocompile/internal/zzverif/hx"
	"github.com/bufbuild/protocompile/internal/zzverif/tape"
	"github.com/bufbuild/protocompile/linker"
	"github.com/bufbuild/protocompile/reporter"
)

type symOp struct {
	name  string
	write bool
	run   func(s *linker.Symbols, fs formSet) string
	// noLin: the result is excluded from the sequential-order comparison. Lookup of a
	// *package* name can observe the window between the creation of the package entry and
	// the lookup's own package walk; the property demands race freedom and collision
	// equivalence, not linearizable lookups, so this is not reported (DESIGN.md C16).
	noLin bool
}

func symOps() []symOp {
	var ops []symOp
	for i := range universe {
		i := i
		ops = append(ops, symOp{"Import(" + universe[i].name + ")", true, func(s *linker.Symbols, fs formSet) string {
			if err := s.Import(fs.files[i], reporter.NewHandler(nil)); err != nil {
				return "collision"
			}
			return "ok"
		}, false})
	}
	for _, n := range []string{"p.q.A", "p.q.C", "p.q", "p.Base", "p.r.s.D", "p.r"} {
		n := n
		ops = append(ops, symOp{"Lookup(" + n + ")", false, func(s *linker.Symbols, fs formSet) string {
			return fmt.Sprint(s.Lookup(protoreflect.FullName(n)) != nil)
		}, n == "p.q" || n == "p.r"})
	}
	for _, e := range []int{100, 101} {
		e := e
		ops = append(ops, symOp{fmt.Sprintf("LookupExtension(p.Base,%d)", e), false, func(s *linker.Symbols, fs formSet) string {
			return fmt.Sprint(s.LookupExtension("p.Base", protoreflect.FieldNumber(e)) != nil)
		}, false})
	}
	ops = append(ops, symOp{"AddExtension(p.Base,100)", true, func(s *linker.Symbols, fs formSet) string {
		if err := s.AddExtension("p", "p.Base", 100, ast.UnknownSpan("x.proto"), reporter.NewHandler(nil)); err != nil {
			return "collision"
		}
		return "ok"
	}, false})
	ops = append(ops, symOp{"AddExtensionDeclaration(p.q.e1)", true, func(s *linker.Symbols, fs formSet) string {
		if err := s.AddExtensionDeclaration("p.q.e1", "p.Base", 100, ast.UnknownSpan("x.proto"), reporter.NewHandler(nil)); err != nil {
			return "collision"
		}
		return "ok"
	}, false})
	ops = append(ops, symOp{"AddExtensionDeclaration(p.q.e1 as 101)", true, func(s *linker.Symbols, fs formSet) string {
		if err := s.AddExtensionDeclaration("p.q.e1", "p.Base", 101, ast.UnknownSpan("x.proto"), reporter.NewHandler(nil)); err != nil {
			return "collision"
		}
		return "ok"
	}, false})
	return ops
}

// observable state of a table
func snapshot(s *linker.Symbols) string {
	var names []string
	seen := map[string]bool{}
	for _, f := range universe {
		for _, n := range append([]string{f.pkg}, f.symbols...) {
			if !seen[n] {
				seen[n] = true
				names = append(names, n)
			}
		}
	}
	sort.Strings(names)
	var b strings.Builder
	for _, n := range names {
		if s.Lookup(protoreflect.FullName(n)) != nil {
			b.WriteString(n + ";")
		}
	}
	for e := 100; e <= 102; e++ {
		if s.LookupExtension("p.Base", protoreflect.FieldNumber(e)) != nil {
			fmt.Fprintf(&b, "ext%d;", e)
		}
	}
	return b.String()
}

func runC16(h *hx.H) {
	h.Rule = "(a) every unordered pair (quick) / every triple with >=1 writer (thorough) of table operations {Import of 6 colliding files, Lookup of 6 names, LookupExtension, AddExtension, AddExtensionDeclaration} on one thread each, three pre-populated tables, both descriptor forms, all schedules within the preemption bound of the real linker/symbols.go with the watched-field happens-before monitor; results and final table must equal some sequential order; non-trivial = execution with >=1 deviation reaching a new canonical state"
	forms := buildForms()
	ops := symOps()
	pre := [][]int{{}, {0, 5}, {4}}
	pb := 2
	if h.Thorough() {
		pb = 3
	}
	for _, fs := range forms {
		for pi, p := range pre {
			var combos [][]int
			for a := 0; a < len(ops); a++ {
				for b := a; b < len(ops); b++ {
					if !ops[a].write && !ops[b].write {
						continue
					}
					combos = append(combos, []int{a, b})
					if h.Thorough() {
						for c := b; c < len(ops); c++ {
							combos = append(combos, []int{a, b, c})
						}
					}
				}
			}
			for _, combo := range combos {
				if h.Expired() || h.TooMany() {
					return
				}
				var nm []string
				for _, o := range combo {
					nm = append(nm, ops[o].name)
				}
				name := fmt.Sprintf("C16a/%s/pre%d/%s", fs.name, pi, strings.Join(nm, " || "))
				b := tape.B(pb, 0, 0, 1)
				if len(combo) == 3 {
					b = tape.B(2, 0, 0, 1)
				}
				h.Explore(hx.Scn{Name: name, Bounds: b, Prune: true, Body: c16aBody(fs, p, ops, combo)})
			}
		}
	}
}

func permsInt(xs []int) [][]int {
	if len(xs) <= 1 {
		return [][]int{append([]int(nil), xs...)}
	}
	var out [][]int
	for i := range xs {
		rest := append(append([]int(nil), xs[:i]...), xs[i+1:]...)
		for _, p := range permsInt(rest) {
			out = append(out, append([]int{i}, p...))
		}
	}
	return out
}

func c16aBody(fs formSet, pre []int, ops []symOp, combo []int) func(r *tape.Run) {
	mkTable := func() *linker.Symbols {
		s := &linker.Symbols{}
		if err := s.Import(fs.base, reporter.NewHandler(nil)); err != nil {
			panic(err)
		}
		for _, i := range pre {
			if err := s.Import(fs.files[i], reporter.NewHandler(nil)); err != nil {
				panic(err)
			}
		}
		return s
	}
	// sequential references: every order of the operations (indices into combo)
	idx := make([]int, len(combo))
	for i := range idx {
		idx[i] = i
	}
	seq := map[string]bool{}
	var orders [][]int
	var gen func(rest, acc []int)
	gen = func(rest, acc []int) {
		if len(rest) == 0 {
			orders = append(orders, append([]int(nil), acc...))
			return
		}
		for i := range rest {
			nr := append(append([]int(nil), rest[:i]...), rest[i+1:]...)
			gen(nr, append(acc, rest[i]))
		}
	}
	gen(idx, nil)
	for _, ord := range orders {
		s := mkTable()
		res := make([]string, len(combo))
		for _, k := range ord {
			res[k] = ops[combo[k]].run(s, fs)
			if ops[combo[k]].noLin {
				res[k] = "-"
			}
		}
		seq[strings.Join(res, ",")+"|"+snapshot(s)] = true
	}
	return func(r *tape.Run) {
		s := mkTable()
		res := make([]string, len(combo))
		sc := hx.RunCoop(r, 0, func() {
			for k := range combo {
				k := k
				coop.Go(func() {
					res[k] = ops[combo[k]].run(s, fs)
					if ops[combo[k]].noLin {
						res[k] = "-"
					}
				})
			}
		})
		r.Outcome = strings.Join(res, ",")
		o := &sc.Out
		switch {
		case o.Hung():
			r.Fail("hang", "%s", o.Describe())
		case len(o.Crashes) > 0:
			r.Fail("crash", "%v", o.Crashes)
		case len(o.Races) > 0:
			sig := "data-race"
			for _, rc := range o.Races {
				if strings.Contains(rc, "symbols.go") {
					sig = "data-race-symbols"
				}
			}
			r.Fail(sig, "unordered conflicting accesses: %v", o.Races)
		default:
			key := strings.Join(res, ",") + "|" + snapshot(s)
			if !seq[key] {
				r.Fail("not-linearizable", "results %v and final table %q match no sequential order of the operations (sequential outcomes: %v)", res, snapshot(s), keys(seq))
			}
		}
	}
}

func keys(m map[string]bool) []string {
	var k []string
	for x := range m {
		k = append(k, x)
	}
	sort.Strings(k)
	return k
}
