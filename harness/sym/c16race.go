package main

import (
	"sync"

	"github.com/bufbuild/protocompile/internal/zzverif/hx"
	"github.com/bufbuild/protocompile/linker"
	"github.com/bufbuild/protocompile/reporter"
)

// runC16Race is the auxiliary free-running pass of C16: the same pairs of table operations as
// the schedule exploration, each pair on two real goroutines released together, several rounds
// per pair, in a binary built with -race and without the scheduler. The watched-field monitor of
// the exploration sees accesses through the table's fields; this pass is there for accesses it
// cannot attribute (a map reached through a local copy of the field, memory outside the list).
// vcheck counts the race detector's reports.
func runC16Race(h *hx.H) {
	h.Rule = "every unordered pair of table operations with >=1 writer (as in C16a) on two free-running goroutines, three pre-populated tables, both descriptor forms, 6 rounds each, under the Go race detector"
	forms := buildForms()
	ops := symOps()
	pre := [][]int{{}, {0, 5}, {4}}
	rounds := 6
	for _, fs := range forms {
		for _, p := range pre {
			for a := 0; a < len(ops); a++ {
				for b := a; b < len(ops); b++ {
					if !ops[a].write && !ops[b].write {
						continue
					}
					for round := 0; round < rounds; round++ {
						h.Eval(1)
						h.State(1)
						h.Trans(2)
						s := &linker.Symbols{}
						if err := s.Import(fs.base, reporter.NewHandler(nil)); err != nil {
							h.Infra = append(h.Infra, "C16race: base import failed: "+err.Error())
							return
						}
						for _, i := range p {
							_ = s.Import(fs.files[i], reporter.NewHandler(nil))
						}
						start := make(chan struct{})
						var wg sync.WaitGroup
						for k, op := range []symOp{ops[a], ops[b]} {
							wg.Add(1)
							// alternate which goroutine is started first
							op := op
							if round%2 == 1 {
								op = []symOp{ops[b], ops[a]}[k]
							}
							go func() {
								defer wg.Done()
								<-start
								op.run(s, fs)
							}()
						}
						close(start)
						wg.Wait()
					}
				}
			}
		}
	}
}
