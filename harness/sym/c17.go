package main

import (
	"fmt"
	"sort"
	"strings"

	"google.golang.org/protobuf/reflect/protoreflect"

	"github.com/bufbuild/protocompile/internal/zzverif/hx"
	"github.com/bufbuild/protocompile/linker"
	"github.com/bufbuild/protocompile/reporter"
)

// model: atomic import
type modelTable struct {
	imported map[int]bool
	symbols  map[string]bool // non-package symbols
	pkgs     map[string]bool
	exts     map[int]bool
}

func newModel() *modelTable {
	return &modelTable{imported: map[int]bool{}, symbols: map[string]bool{"p.Base": true, "p.Base.x": true}, pkgs: map[string]bool{"p": true}, exts: map[int]bool{}}
}

func pkgPrefixes(pkg string) []string {
	var out []string
	parts := strings.Split(pkg, ".")
	for i := range parts {
		out = append(out, strings.Join(parts[:i+1], "."))
	}
	return out
}

// tryImport returns "" if the import succeeds (the table changes only then),
// else the reason: "pkg", "symbol" or "ext".
func (m *modelTable) tryImport(i int) string {
	if m.imported[i] {
		return ""
	}
	f := universe[i]
	for _, p := range pkgPrefixes(f.pkg) {
		if m.symbols[p] {
			return "pkg"
		}
	}
	seen := map[string]bool{}
	for _, s := range f.symbols {
		if m.symbols[s] || m.pkgs[s] || seen[s] {
			return "symbol"
		}
		seen[s] = true
	}
	se := map[int]bool{}
	for _, e := range f.exts {
		if m.exts[e] || se[e] {
			return "ext"
		}
		se[e] = true
	}
	m.imported[i] = true
	for _, p := range pkgPrefixes(f.pkg) {
		m.pkgs[p] = true
	}
	for _, s := range f.symbols {
		m.symbols[s] = true
	}
	for _, e := range f.exts {
		m.exts[e] = true
	}
	return ""
}

func runC17(h *hx.H) {
	h.Rule = "every history of <=3 (quick) / <=4 (thorough) Symbols.Import calls over 6 files with planted name, extension-number and package/symbol collisions and fresh nested packages, once as linker results and once as Go-runtime descriptors, base.proto pre-imported; after every step Lookup over the whole name universe and LookupExtension over all numbers must equal an atomic reference table; every history is run with the default handler and with a handler whose reporter records the errors and lets the import go on (failure = error returned or Handler.Error()), and a failed import repeated at once must fail again; non-trivial = history with >=1 failing import"
	forms := buildForms()
	maxLen := 3
	if h.Thorough() {
		maxLen = 4
	}
	var names []string
	seenN := map[string]bool{}
	for _, f := range universe {
		for _, s := range f.symbols {
			if !seenN[s] {
				seenN[s] = true
				names = append(names, s)
			}
		}
	}
	names = append(names, "p.Base", "p.Base.x", "p.nothing")
	sort.Strings(names)
	for _, fs := range forms {
		hist := make([]int, 0, maxLen)
		var rec func()
		rec = func() {
			if len(hist) > 0 {
				if idx, run := h.NextN(); run {
					checkImportHistory(h, hx.CaseID(idx), fs, hist, names, false)
					checkImportHistory(h, hx.CaseID(idx)+"/collecting-reporter", fs, hist, names, true)
				}
			}
			if len(hist) == maxLen || h.TooMany() {
				return
			}
			for i := range universe {
				hist = append(hist, i)
				rec()
				hist = hist[:len(hist)-1]
			}
		}
		rec()
	}
}

// newHandler returns the default handler (stops at the first error) or, with collecting set, one
// whose reporter records every error and lets the operation go on (the documented way to see all
// errors); the import as a whole still fails with ErrInvalidSource then.
func newHandler(collecting bool) *reporter.Handler {
	if !collecting {
		return reporter.NewHandler(nil)
	}
	return reporter.NewHandler(reporter.NewReporter(func(reporter.ErrorWithPos) error { return nil }, nil))
}

func checkImportHistory(h *hx.H, id string, fs formSet, hist []int, names []string, collecting bool) {
	h.Eval(1)
	h.State(1)
	h.Trans(int64(len(hist)))
	h.Trace(1)
	desc := func(k int) string {
		var parts []string
		for i, x := range hist {
			s := universe[x].name
			if i == k {
				s = "[" + s + "]"
			}
			parts = append(parts, s)
		}
		mode := ""
		if collecting {
			mode = " (error-collecting reporter)"
		}
		return fs.name + mode + ": Import " + strings.Join(parts, ", ")
	}
	syms := &linker.Symbols{}
	if err := syms.Import(fs.base, reporter.NewHandler(nil)); err != nil {
		h.Infra = append(h.Infra, "base import failed: "+err.Error())
		return
	}
	m := newModel()
	failures := 0
	// residue names the recorded defect (known_findings.json) that an earlier or the
	// current failed import can legitimately be blamed for; a deviation in a history
	// without such an import keeps its own signature.
	residue := ""
	violate := func(sig, msg string) {
		if residue != "" {
			sig = residue
		}
		h.Violate(sig, id, msg, nil)
	}
	for k, x := range hist {
		reason := m.tryImport(x)
		want := reason == ""
		if residue == "" {
			switch reason {
			case "ext":
				residue = "import-not-atomic-extension-collision"
			case "symbol", "pkg":
				for _, p := range pkgPrefixes(universe[x].pkg) {
					if !m.pkgs[p] && !m.symbols[p] {
						residue = "import-not-atomic-new-packages"
					}
				}
			}
		}
		// (with a collecting reporter a failed import can return nil; the failure is then the
		// handler's: reporter.Handler.Error)
		hd := newHandler(collecting)
		err := syms.Import(fs.files[x], hd)
		if err == nil {
			err = hd.Error()
		}
		got := err == nil
		if !got {
			failures++
		}
		if got != want {
			sig := "import-spurious-collision"
			if got && !want {
				sig = "import-collision-missed"
			}
			violate(sig, fmt.Sprintf("%s: import %d %s, the atomic reference table says %s (err: %v)", desc(k), k, okStr(got), okStr(want), err))
			return
		}
		// observable state
		for _, n := range names {
			gotL := syms.Lookup(protoreflect.FullName(n)) != nil
			wantL := m.symbols[n]
			if gotL != wantL {
				violate("lookup-differs", fmt.Sprintf("%s: after import %d (%s) Lookup(%s) found=%v, reference %v", desc(k), k, okStr(got), n, gotL, wantL))
				return
			}
		}
		for e := 100; e <= 103; e++ {
			gotE := syms.LookupExtension("p.Base", protoreflect.FieldNumber(e)) != nil
			if gotE != m.exts[e] {
				violate("lookup-extension-differs", fmt.Sprintf("%s: after import %d (%s) LookupExtension(p.Base,%d) found=%v, reference %v", desc(k), k, okStr(got), e, gotE, m.exts[e]))
				return
			}
		}
		if !got {
			// importing the same file again must report the collision again
			hd2 := newHandler(collecting)
			if err2 := syms.Import(fs.files[x], hd2); err2 == nil && hd2.Error() == nil {
				violate("import-retry-succeeds", fmt.Sprintf("%s: import %d failed (%v) but importing the same file again succeeds", desc(k), k, err))
				return
			}
		}
	}
	if failures > 0 {
		h.NonTrivial++
		if h.WantSample() {
			h.Sample(map[string]any{"case": id, "history": desc(-1), "failing_imports": failures})
		}
	}
}

func okStr(b bool) string {
	if b {
		return "succeeds"
	}
	return "fails"
}
