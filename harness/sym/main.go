// Harness for the shared symbol table (C16, C17): linker/symbols.go under the
// coop scheduler with the watched-field race monitor, and sequential import
// histories against an atomic reference table.
package main

import (
	"context"
	"fmt"
	"os"
	"strings"

	"google.golang.org/protobuf/reflect/protodesc"
	"google.golang.org/protobuf/reflect/protoreflect"
	"google.golang.org/protobuf/reflect/protoregistry"

	"github.com/bufbuild/protocompile"
	"github.com/bufbuild/protocompile/internal/zzverif/hx"
	"github.com/bufbuild/protocompile/linker"
)

func main() {
	prop := ""
	for i, a := range os.Args {
		if a == "-prop" && i+1 < len(os.Args) {
			prop = os.Args[i+1]
			os.Args = append(os.Args[:i], os.Args[i+2:]...)
			break
		}
	}
	hx.Main(prop, func(h *hx.H) {
		switch prop {
		case "C16":
			runC16(h)
		case "C16race":
			runC16Race(h)
		case "C17":
			runC17(h)
		default:
			h.Infra = append(h.Infra, "unknown property "+prop)
		}
	})
}

type srcFile struct {
	name string
	text string
	// model facts
	pkg     string
	symbols []string // full names the file defines
	exts    []int    // extension numbers of p.Base the file defines, in order
}

const baseSrc = "syntax = \"proto2\";\npackage p;\nmessage Base { optional int32 x = 1; extensions 100 to 200; }\n"

func hdr(pkg string) string {
	return "syntax = \"proto2\";\npackage " + pkg + ";\nimport \"base.proto\";\n"
}

var universe = []srcFile{
	{"f1.proto", hdr("p.q") + "message A { optional int32 a = 1; }\nextend p.Base { optional int32 e1 = 100; }\n", "p.q", []string{"p.q.A", "p.q.A.a", "p.q.e1"}, []int{100}},
	{"f2.proto", hdr("p.q") + "message A { optional int32 z = 1; }\nmessage B2 { }\n", "p.q", []string{"p.q.A", "p.q.A.z", "p.q.B2"}, nil},
	{"f3.proto", hdr("p.q") + "message C { }\nextend p.Base { optional int32 e3 = 100; }\n", "p.q", []string{"p.q.C", "p.q.e3"}, []int{100}},
	{"f4.proto", hdr("p.r.s") + "message D { }\nextend p.Base { optional int32 e4a = 101; optional int32 e4b = 100; }\n", "p.r.s", []string{"p.r.s.D", "p.r.s.e4a", "p.r.s.e4b"}, []int{101, 100}},
	{"f5.proto", hdr("p") + "message q { }\nmessage r { }\n", "p", []string{"p.q", "p.r"}, nil},
	{"f6.proto", hdr("p.q") + "message E { }\nextend p.Base { optional int32 e6 = 102; }\n", "p.q", []string{"p.q.E", "p.q.e6"}, []int{102}},
}

type formSet struct {
	name  string
	base  protoreflect.FileDescriptor
	files []protoreflect.FileDescriptor
}

type oneResolver struct {
	files map[string]string
	descs map[string]protoreflect.FileDescriptor
}

func (r *oneResolver) FindFileByPath(path string) (protocompile.SearchResult, error) {
	if d, ok := r.descs[path]; ok {
		return protocompile.SearchResult{Desc: d}, nil
	}
	if s, ok := r.files[path]; ok {
		return protocompile.SearchResult{Source: strings.NewReader(s)}, nil
	}
	return protocompile.SearchResult{}, fmt.Errorf("not found: %s", path)
}

// buildForms compiles every universe file on its own (sharing one base.proto
// object) as linker results with source, and rebuilds them as Go-runtime
// descriptors.
func buildForms() []formSet {
	compile := func(res *oneResolver, name string) linker.Result {
		c := protocompile.Compiler{Resolver: res, MaxParallelism: 1, RetainASTs: true, SourceInfoMode: protocompile.SourceInfoStandard}
		fs, err := c.Compile(context.Background(), name)
		if err != nil {
			panic(fmt.Sprintf("harness file %s does not compile: %v", name, err))
		}
		return fs[0].(linker.Result)
	}
	base := compile(&oneResolver{files: map[string]string{"base.proto": baseSrc}}, "base.proto")
	rs := formSet{name: "results", base: base}
	reg := new(protoregistry.Files)
	basePD, err := protodesc.NewFile(base.FileDescriptorProto(), reg)
	if err != nil {
		panic(err)
	}
	if err := reg.RegisterFile(basePD); err != nil {
		panic(err)
	}
	pd := formSet{name: "descriptors", base: basePD}
	for _, f := range universe {
		r := compile(&oneResolver{files: map[string]string{f.name: f.text}, descs: map[string]protoreflect.FileDescriptor{"base.proto": base}}, f.name)
		rs.files = append(rs.files, r)
		d, err := protodesc.NewFile(r.FileDescriptorProto(), reg)
		if err != nil {
			panic(err)
		}
		pd.files = append(pd.files, d)
	}
	return []formSet{rs, pd}
}
