// Free-running passes (no scheduler, no instrumentation) of the concurrency checks, for a binary
// built with -race: the schedule explorations order threads at synchronisation operations and see
// conflicting accesses only through the watched fields, so plain data races elsewhere are left to
// the Go race detector on the same kinds of operations. vcheck counts its reports; every report
// is a violation of the property whose pass it is.
package main

import (
	"context"
	"fmt"
	"os"
	"strings"
	"sync"
	"time"

	"github.com/bufbuild/protocompile"
	"github.com/bufbuild/protocompile/experimental/incremental"
	"github.com/bufbuild/protocompile/internal/intern"
	"github.com/bufbuild/protocompile/internal/zzverif/hx"
	"github.com/bufbuild/protocompile/linker"
)

func main() {
	prop := ""
	for i, a := range os.Args {
		if a == "-prop" && i+1 < len(os.Args) {
			prop = os.Args[i+1]
			os.Args = append(os.Args[:i], os.Args[i+2:]...)
			break
		}
	}
	hx.Main(prop, func(h *hx.H) {
		switch prop {
		case "C05race":
			raceCompile(h)
		case "C33race":
			raceIncremental(h)
			raceCancelledWaiter(h)
		case "C38race":
			raceIntern(h)
		default:
			h.Infra = append(h.Infra, "unknown property "+prop)
		}
	})
}

type fileSet map[string]string

func p2(pkg, body string, imports ...string) string {
	s := "syntax = \"proto2\";\npackage " + pkg + ";\n"
	for _, i := range imports {
		s += "import " + i + ";\n"
	}
	return s + body
}

const minimalDescriptorProto = `syntax = "proto2";
package google.protobuf;
message FileOptions { optional string java_package = 1; extensions 1000 to max; }
message MessageOptions { optional bool deprecated = 3; extensions 1000 to max; }
message FieldOptions { optional bool deprecated = 3; extensions 1000 to max; }
`

// raceCompile: the import-graph scenarios of C05, each compiled by two concurrent Compile calls
// that share one linker.Symbols, for MaxParallelism 1..4 and every rotation of the requested names.
func raceCompile(h *hx.H) {
	h.Rule = "import-graph scenarios (chain, diamond with extensions, shared dependency, resolver-supplied descriptor.proto) x MaxParallelism 1..4 x rotations of the requested names, two concurrent Compile calls sharing one symbol table plus concurrent Lookup/LookupExtension, 4 rounds each, under the Go race detector"
	scns := []struct {
		files fileSet
		req   []string
	}{
		{fileSet{
			"a.proto": p2("p", "message A { optional B b = 1; }\n", `"b.proto"`),
			"b.proto": p2("p", "message B { optional C c = 1; }\n", `"c.proto"`),
			"c.proto": p2("p", "message C { optional int32 x = 1; }\n"),
		}, []string{"a.proto", "b.proto", "c.proto"}},
		{fileSet{
			"a.proto": p2("p", "message A { optional B b = 1; optional C c = 2; }\nextend D { optional int32 ea = 102; }\n", `"b.proto"`, `"c.proto"`, `"d.proto"`),
			"b.proto": p2("p", "message B { optional D d = 1; }\nextend D { optional int32 eb = 100; }\n", `"d.proto"`),
			"c.proto": p2("p", "message C { optional D d = 1; }\nextend D { optional int32 ec = 101; }\n", `"d.proto"`),
			"d.proto": p2("p", "message D { optional int32 x = 1; extensions 100 to 200; }\n"),
		}, []string{"a.proto", "b.proto", "c.proto"}},
		{fileSet{
			"a.proto":                          "syntax = \"proto2\";\npackage p;\noption java_package = \"x\";\nmessage A { optional int32 x = 1; }\n",
			"b.proto":                          "syntax = \"proto2\";\npackage q;\nimport \"a.proto\";\nmessage B { optional p.A a = 1; }\n",
			"google/protobuf/descriptor.proto": minimalDescriptorProto,
		}, []string{"a.proto", "b.proto"}},
	}
	for _, sc := range scns {
		for par := 1; par <= 4; par++ {
			for rot := range sc.req {
				for round := 0; round < 4; round++ {
					h.Eval(1)
					h.State(1)
					h.Trans(2)
					syms := &linker.Symbols{}
					req := append(append([]string(nil), sc.req[rot:]...), sc.req[:rot]...)
					var wg sync.WaitGroup
					start := make(chan struct{})
					errs := make([]error, 2)
					for k := 0; k < 2; k++ {
						k := k
						wg.Add(1)
						go func() {
							defer wg.Done()
							<-start
							// the second compile has files of its own in the same packages (a file
							// compiled twice would collide with itself in the shared table)
							names, files := req, sc.files
							if k == 1 {
								names, files = []string{"z.proto", "y.proto"}, fileSet{
									"z.proto": p2("p", "message Z { optional int32 x = 1; extensions 100 to 200; }\nextend Z { optional int32 ez = 100; }\n"),
									"y.proto": p2("q", "message Y { optional p.Z z = 1; }\nextend p.Z { optional int32 ey = 101; }\n", `"z.proto"`),
								}
							}
							c := protocompile.Compiler{
								Resolver:       &protocompile.SourceResolver{Accessor: protocompile.SourceAccessorFromMap(files)},
								MaxParallelism: par,
								Symbols:        syms,
							}
							// (a compile of three small files that has not returned after two minutes
							// is stuck, not slow)
							ctx, cancel := context.WithTimeout(context.Background(), 2*time.Minute)
							defer cancel()
							_, errs[k] = c.Compile(ctx, names...)
						}()
					}
					wg.Add(1)
					go func() {
						defer wg.Done()
						<-start
						for i := 0; i < 20; i++ {
							syms.Lookup("p.D")
							syms.LookupExtension("p.D", 100)
							syms.Lookup("p.A")
							syms.LookupExtension("p.Z", 100)
						}
					}()
					close(start)
					wg.Wait()
					for k, err := range errs {
						if err == context.DeadlineExceeded {
							h.Violate("free-running-compile-hangs", fmt.Sprintf("par%d/rot%d/round%d", par, rot, round), fmt.Sprintf("compile %d of %v at MaxParallelism %d did not return within two minutes", k, req, par), nil)
							return
						}
						if err != nil {
							h.Violate("free-running-compile-fails", fmt.Sprintf("par%d/rot%d/round%d", par, rot, round), fmt.Sprintf("compile %d of valid files failed: %v", k, err), nil)
						}
					}
				}
			}
		}
	}
}

type nodeKey struct{ I int }

type dagNode struct {
	adj *[4][4]bool
	ver *[4]int
	i   int
}

func (q dagNode) Key() any { return nodeKey{q.i} }

func (q dagNode) Execute(t *incremental.Task) (int, error) {
	sum := q.ver[q.i]
	var qs []incremental.Query[int]
	for j := 0; j < 4; j++ {
		if q.adj[q.i][j] {
			qs = append(qs, dagNode{q.adj, q.ver, j})
		}
	}
	if len(qs) == 0 {
		return sum, nil
	}
	res, err := incremental.Resolve(t, qs...)
	if err != nil {
		return 0, err
	}
	for _, r := range res {
		if r.Fatal != nil {
			return 0, r.Fatal
		}
		sum += r.Value
	}
	return sum, nil
}

// raceIncremental: every DAG on 4 nodes with edges i->j (i<j), run by two concurrent
// incremental.Run calls on one executor with different root sets, followed by an eviction and a
// second wave, for parallelism 1..4.
func raceIncremental(h *hx.H) {
	h.Rule = "every DAG on 4 nodes (edges i->j, i<j: 64 graphs) x parallelism 1..4: two concurrent incremental.Run calls with different roots on one executor, an eviction, and two more concurrent runs; plus 20 rounds of a Run that is cancelled while it waits for a query led by another Run; under the Go race detector; results must equal the sequential evaluation"
	for g := 0; g < 64; g++ {
		var adj [4][4]bool
		bit := 0
		for i := 0; i < 4; i++ {
			for j := i + 1; j < 4; j++ {
				adj[i][j] = g&(1<<bit) != 0
				bit++
			}
		}
		for par := 1; par <= 4; par++ {
			h.Eval(1)
			h.State(1)
			h.Trans(4)
			ver := [4]int{1, 10, 100, 1000}
			var eval func(i int) int
			eval = func(i int) int {
				s := ver[i]
				for j := 0; j < 4; j++ {
					if adj[i][j] {
						s += eval(j)
					}
				}
				return s
			}
			exec := incremental.New(incremental.WithParallelism(int64(par)))
			wave := func(tag string) {
				var wg sync.WaitGroup
				start := make(chan struct{})
				for k, roots := range [][]int{{0, 1}, {1, 0, 2}} {
					k, roots := k, roots
					wg.Add(1)
					go func() {
						defer wg.Done()
						<-start
						qs := make([]incremental.Query[int], len(roots))
						for i, r := range roots {
							qs[i] = dagNode{&adj, &ver, r}
						}
						res, _, err := incremental.Run(context.Background(), exec, qs...)
						if err != nil {
							h.Violate("free-running-run-fails", fmt.Sprintf("g%d/par%d/%s/%d", g, par, tag, k), err.Error(), nil)
							return
						}
						for i, r := range res {
							if r.Fatal != nil || r.Value != eval(roots[i]) {
								h.Violate("free-running-wrong-value", fmt.Sprintf("g%d/par%d/%s/%d", g, par, tag, k), fmt.Sprintf("node %d: value %d fatal %v, sequential evaluation %d", roots[i], r.Value, r.Fatal, eval(roots[i])), nil)
							}
						}
					}()
				}
				close(start)
				wg.Wait()
			}
			wave("first")
			ver[3] = 2000
			exec.Evict(nodeKey{3})
			wave("after-evict")
		}
	}
}

type gatedNode struct {
	gate <-chan struct{}
	i    int
}

func (q gatedNode) Key() any { return nodeKey{100 + q.i} }

func (q gatedNode) Execute(t *incremental.Task) (int, error) {
	if q.i == 1 {
		<-q.gate // the slow query: stays pending until the gate opens
	}
	return q.i, nil
}

// raceCancelledWaiter: Run A leads a query that stays pending; Run B asks for it as its second
// query (so it waits for it on a goroutine of its own) and is cancelled while it waits; the
// query finishes later. Whatever B gets back, it must not touch the result while A writes it.
func raceCancelledWaiter(h *hx.H) {
	for round := 0; round < 20; round++ {
		h.Eval(1)
		h.State(1)
		h.Trans(2)
		exec := incremental.New(incremental.WithParallelism(4))
		gate := make(chan struct{})
		var wg sync.WaitGroup
		wg.Add(1)
		started := make(chan struct{})
		go func() {
			defer wg.Done()
			close(started)
			_, _, _ = incremental.Run(context.Background(), exec, incremental.Query[int](gatedNode{gate, 1}))
		}()
		<-started
		time.Sleep(5 * time.Millisecond) // let A become the leader of query 1
		ctx, cancel := context.WithCancel(context.Background())
		wg.Add(1)
		go func() {
			defer wg.Done()
			_, _, _ = incremental.Run(ctx, exec, incremental.Query[int](gatedNode{gate, 0}), incremental.Query[int](gatedNode{gate, 1}))
		}()
		time.AfterFunc(10*time.Millisecond, cancel)
		time.AfterFunc(40*time.Millisecond, func() { close(gate) }) // opened by the clock, not by B's return
		wg.Wait()
	}
}

// raceIntern: goroutines intern overlapping string sets (inlinable and not) while others read.
func raceIntern(h *hx.H) {
	h.Rule = "4 goroutines interning overlapping sets of 12 strings (short inlinable, long, with a trailing dot, non-ASCII) in different orders while 2 goroutines call Value and Query, 50 rounds on fresh tables, under the Go race detector; all goroutines must get the same ID for the same string"
	words := []string{"a", "abcde", "abcdef", "message.name.long", "x.", "é", "a_b.C9", "0123456789", "zzzzzz", "a.b.c.d.e.f", "", "hello world"}
	for round := 0; round < 50; round++ {
		h.Eval(1)
		h.State(1)
		h.Trans(6)
		var tab intern.Table
		ids := make([][]intern.ID, 4)
		var wg sync.WaitGroup
		start := make(chan struct{})
		for k := 0; k < 4; k++ {
			k := k
			ids[k] = make([]intern.ID, len(words))
			wg.Add(1)
			go func() {
				defer wg.Done()
				<-start
				for n := range words {
					i := (n*(k+1) + round) % len(words)
					if k%2 == 1 {
						i = len(words) - 1 - i
					}
					ids[k][i] = tab.Intern(words[i])
				}
			}()
		}
		for k := 0; k < 2; k++ {
			wg.Add(1)
			go func() {
				defer wg.Done()
				<-start
				for _, w := range words {
					if id, ok := tab.Query(w); ok {
						if tab.Value(id) != w {
							h.Violate("free-running-intern-value", fmt.Sprintf("round%d", round), fmt.Sprintf("Query(%q) gave an ID whose Value is %q", w, tab.Value(id)), nil)
						}
					}
				}
			}()
		}
		close(start)
		wg.Wait()
		for i, w := range words {
			// (a goroutine whose stride skips an index leaves it zero: intern it now)
			for k := 0; k < 4; k++ {
				if got := tab.Intern(w); ids[k][i] != 0 && ids[k][i] != got {
					h.Violate("free-running-intern-ids", fmt.Sprintf("round%d", round), fmt.Sprintf("%q: goroutine %d got ID %v, the table now gives %v", w, k, ids[k][i], got), nil)
				}
			}
		}
	}
	_ = strings.TrimSpace
}
