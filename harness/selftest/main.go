// Engine self-tests (DESIGN.md §5): known schedule counts, planted lost update,
// deadlock, livelock, replay determinism, semaphore copy vs the real one.
package main

import (
	"context"
	"fmt"
	"os"

	"golang.org/x/sync/semaphore"

	"github.com/bufbuild/protocompile/internal/zzverif/coop"
	"github.com/bufbuild/protocompile/internal/zzverif/hx"
	"github.com/bufbuild/protocompile/internal/zzverif/tape"
	"github.com/bufbuild/protocompile/internal/zzverif/vatomic"
	"github.com/bufbuild/protocompile/internal/zzverif/vsemaphore"
	"github.com/bufbuild/protocompile/internal/zzverif/vsync"
)

var failed bool

func expect(name string, got, want any) {
	if fmt.Sprint(got) != fmt.Sprint(want) {
		fmt.Printf("SELFTEST FAIL %s: got %v want %v\n", name, got, want)
		failed = true
	} else {
		fmt.Printf("selftest ok   %s = %v\n", name, got)
	}
}

func explore(b tape.Bounds, prune bool, body func(r *tape.Run)) *tape.Stats {
	ex := &tape.Explorer{Bounds: b, Body: body, Prune: prune}
	ex.Explore()
	return ex.Stats
}

func main() {
	hx.Main("selftest", func(h *hx.H) {
		// 1. two threads, two visible steps each: 3 segments per thread => C(6,3)=20 schedules
		steps := func(r *tape.Run) {
			hx.RunCoop(r, 0, func() {
				for i := 0; i < 2; i++ {
					coop.Go(func() { coop.Step("a"); coop.Step("b") })
				}
			})
		}
		expect("interleavings(2x2 steps, unbounded)", explore(tape.B(-1, 0, 0, 0), false, steps).Execs, 20)
		expect("interleavings(2x2 steps, PB0)", explore(tape.B(0, 0, 0, 0), false, steps).Execs, 2)
		st := explore(tape.B(-1, 0, 0, 0), true, steps)
		if st.Execs >= 20 || st.Pruned == 0 {
			expect("pruning reduces independent steps", fmt.Sprint(st.Execs, st.Pruned), "<20 executions")
		} else {
			fmt.Printf("selftest ok   pruning: %d executions, %d pruned\n", st.Execs, st.Pruned)
		}

		// 2. lost update: needs exactly one preemption
		lost := func(r *tape.Run) {
			var x vatomic.Int32
			hx.RunCoop(r, 0, func() {
				for i := 0; i < 2; i++ {
					coop.Go(func() { v := x.Load(); x.Store(v + 1) })
				}
			})
			r.Outcome = fmt.Sprint(x.Load())
			if x.Load() != 2 {
				r.Fail("lost-update", "x=%d", x.Load())
			}
		}
		expect("lost update at PB0", len(explore(tape.B(0, 0, 0, 0), false, lost).Failures), 0)
		s1 := explore(tape.B(1, 0, 0, 0), false, lost)
		expect("lost update at PB1 found", len(s1.Failures) > 0, true)
		s1p := explore(tape.B(-1, 0, 0, 0), true, lost)
		expect("lost update found with pruning", len(s1p.Failures) > 0, true)
		expect("lost update outcomes with pruning", len(s1p.Outcomes), 2)

		// 3. deadlock by lock-order inversion
		dead := func(r *tape.Run) {
			var a, b vsync.Mutex
			s := hx.RunCoop(r, 0, func() {
				coop.Go(func() { a.Lock(); b.Lock(); b.Unlock(); a.Unlock() })
				coop.Go(func() { b.Lock(); a.Lock(); a.Unlock(); b.Unlock() })
			})
			if s.Out.Deadlock {
				r.Fail("deadlock", "%s", s.Out.Describe())
			}
		}
		expect("deadlock at PB0", len(explore(tape.B(0, 0, 0, 0), false, dead).Failures), 0)
		expect("deadlock at PB1 found", len(explore(tape.B(1, 0, 0, 0), false, dead).Failures) > 0, true)

		// 4. livelock: a spinner waiting for a flag nobody sets
		live := func(r *tape.Run) {
			var f vatomic.Bool
			s := hx.RunCoop(r, 0, func() {
				coop.Go(func() {
					for !f.Load() {
						coop.Yield()
					}
				})
			})
			if s.Out.Livelock {
				r.Fail("livelock", "%s", s.Out.Describe())
			}
		}
		expect("livelock found", len(explore(tape.B(0, 0, 0, 0), false, live).Failures) > 0, true)
		// a spinner whose flag is eventually set terminates on every schedule
		live2 := func(r *tape.Run) {
			var f vatomic.Bool
			s := hx.RunCoop(r, 0, func() {
				coop.Go(func() {
					for !f.Load() {
						coop.Yield()
					}
				})
				coop.Go(func() { coop.Step("x"); f.Store(true) })
			})
			if s.Out.Hung() {
				r.Fail("hang", "%s", s.Out.Describe())
			}
		}
		s4 := explore(tape.B(-1, 0, 0, 0), false, live2)
		expect("spinner with setter never hangs", len(s4.Failures), 0)

		// 5. race monitor: unsynchronised write/read is reported, mutex-protected is not
		race := func(locked bool) func(r *tape.Run) {
			return func(r *tape.Run) {
				var mu vsync.Mutex
				x := new(int)
				s := hx.RunCoop(r, 0, func() {
					coop.Go(func() {
						if locked {
							mu.Lock()
							defer mu.Unlock()
						} else {
							coop.Step("w")
						}
						coop.Watch(x, true, "w")
						*x = 1
					})
					coop.Go(func() {
						if locked {
							mu.Lock()
							defer mu.Unlock()
						} else {
							coop.Step("r")
						}
						coop.Watch(x, false, "r")
						_ = *x
					})
				})
				if len(s.Out.Races) > 0 {
					r.Fail("race", "%v", s.Out.Races)
				}
			}
		}
		expect("race monitor reports unsynchronised access", len(explore(tape.B(0, 0, 0, 0), false, race(false)).Failures) > 0, true)
		expect("race monitor silent under mutex", len(explore(tape.B(-1, 0, 0, 0), false, race(true)).Failures), 0)

		// 6. replay determinism
		s2 := explore(tape.B(2, 0, 0, 0), false, lost)
		if len(s2.Failures) > 0 {
			tp := s2.Failures[0].Trimmed()
			a := tape.Replay(lost, tp)
			b := tape.Replay(lost, tp)
			expect("replay deterministic", a.Failure == b.Failure && a.Failure != "" && fmt.Sprint(a.Choices()) == fmt.Sprint(b.Choices()), true)
		}

		// 7. semaphore copy vs the real x/sync semaphore: all sequences <=5 of
		// {TryAcquire(1), TryAcquire(2), Release(1), Acquire(1) with cancelled ctx}
		cctx, cancel := context.WithCancel(context.Background())
		cancel()
		var seqs, diffs int
		var rec func(seq []int)
		rec = func(seq []int) {
			if len(seq) > 0 {
				seqs++
				a, b := semaphore.NewWeighted(2), vsemaphore.NewWeighted(2)
				held := 0
				for _, op := range seq {
					var x, y any
					switch op {
					case 0:
						x, y = a.TryAcquire(1), b.TryAcquire(1)
						if x.(bool) {
							held++
						}
					case 1:
						x, y = a.TryAcquire(2), b.TryAcquire(2)
						if x.(bool) {
							held += 2
						}
					case 2:
						if held == 0 {
							continue
						}
						a.Release(1)
						b.Release(1)
						held--
					case 3:
						x, y = a.Acquire(cctx, 1), b.Acquire(cctx, 1)
					}
					if fmt.Sprint(x) != fmt.Sprint(y) || int64(held) != b.VerifHeld() {
						diffs++
					}
				}
			}
			if len(seq) == 5 {
				return
			}
			for op := 0; op < 4; op++ {
				rec(append(seq[:len(seq):len(seq)], op))
			}
		}
		rec(nil)
		expect("semaphore copy differential sequences", seqs, 4+16+64+256+1024)
		expect("semaphore copy disagreements", diffs, 0)

		// 8. blocking Acquire under the scheduler: FIFO hand-off and cancellation
		sem := func(r *tape.Run) {
			sm := vsemaphore.NewWeighted(1)
			got := 0
			s := hx.RunCoop(r, 0, func() {
				for i := 0; i < 3; i++ {
					coop.Go(func() {
						if sm.Acquire(context.Background(), 1) == nil {
							got++
							sm.Release(1)
						}
					})
				}
			})
			if s.Out.Hung() || got != 3 || sm.VerifHeld() != 0 {
				r.Fail("sem", "hung=%v got=%d held=%d", s.Out.Hung(), got, sm.VerifHeld())
			}
		}
		s8 := explore(tape.B(2, 0, 0, 0), false, sem)
		expect("semaphore under scheduler failures", len(s8.Failures), 0)
		fmt.Printf("              semaphore scenario executions at PB2: %d\n", s8.Execs)
		h.Eval(1)
		if failed {
			h.Infra = append(h.Infra, "self-tests failed")
		}
	})
	if failed {
		os.Exit(2)
	}
}
