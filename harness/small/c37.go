package main

import (
	"fmt"

	"google.golang.org/protobuf/proto"

	"github.com/bufbuild/protocompile/experimental/report"
	"github.com/bufbuild/protocompile/experimental/source"
	"github.com/bufbuild/protocompile/internal/zzverif/hx"
)

func init() { props["C37"] = runC37 }

type annSpec struct {
	file       int
	start, end int
	msg        string
	edit       int // 0 none, 1 replace whole span with "r", 2 insertion at start
}

type diagSpec struct {
	level                   report.Level
	tag, inFile             string
	notes, help, debug      bool
	anns                    []annSpec
}

func runC37(h *hx.H) {
	h.Rule = "every report of one diagnostic over files {empty, \"a\", \"ab\\n\"}: level in {ICE, Error, Warning, Remark} x tag x notes x help x debug x in-file marker x 0..2 annotations with every span 0<=s<=e<=len (including zero-width at EOF) x message x edit, plus every report of two diagnostics from a reduced pool; oracle: decode(encode(r)) succeeds and is structurally equal (accessors and re-encoding); non-trivial = report with >=1 annotation"
	texts := []string{"", "a", "ab\n"}
	files := make([]*source.File, len(texts))
	for i, t := range texts {
		files[i] = source.NewFile(fmt.Sprintf("f%d.proto", i), t)
	}
	var anns []annSpec
	for fi, t := range texts {
		for s := 0; s <= len(t); s++ {
			for e := s; e <= len(t); e++ {
				for _, m := range []string{"", "s"} {
					anns = append(anns, annSpec{fi, s, e, m, 0})
				}
				anns = append(anns, annSpec{fi, s, e, "fix", 1})
				if h.Thorough() {
					anns = append(anns, annSpec{fi, s, e, "ins", 2})
				}
			}
		}
	}
	annLists := [][]annSpec{nil}
	for _, a := range anns {
		annLists = append(annLists, []annSpec{a})
	}
	for _, a := range anns {
		for _, b := range anns {
			if !h.Thorough() && (a.edit != 0 && b.edit != 0) {
				continue
			}
			annLists = append(annLists, []annSpec{a, b})
		}
	}
	levels := []report.Level{report.ICE, report.Error, report.Warning, report.Remark}
	var pool []diagSpec
	for _, lv := range levels {
		for mask := 0; mask < 32; mask++ {
			d := diagSpec{level: lv, notes: mask&1 != 0, help: mask&2 != 0, debug: mask&4 != 0}
			if mask&8 != 0 {
				d.tag = "t"
			}
			if mask&16 != 0 {
				d.inFile = "x.proto"
			}
			pool = append(pool, d)
		}
	}
	// single diagnostics: full product
	for _, d := range pool {
		for _, al := range annLists {
			// the scalar fields are independent of the annotations: take the full product only
			// for the plain and the fully decorated diagnostic, all annotation lists for every level
			if len(al) == 2 && !(d.tag == "" && d.inFile == "" && !d.notes && !d.help && !d.debug) && !(d.tag != "" && d.notes && d.help && d.debug) && !h.Thorough() {
				continue
			}
			idx, run := h.NextN()
			if !run {
				continue
			}
			dd := d
			dd.anns = al
			checkReport(h, hx.CaseID(idx), files, []diagSpec{dd})
		}
		if h.TooMany() {
			return
		}
	}
	// pairs of diagnostics from a reduced pool
	var small []diagSpec
	for _, lv := range levels {
		for _, al := range [][]annSpec{nil, {anns[0]}, {{2, 3, 3, "eof", 0}}, {{1, 0, 1, "x", 1}, {2, 1, 2, "", 0}}} {
			small = append(small, diagSpec{level: lv, anns: al}, diagSpec{level: lv, tag: "t", notes: true, help: true, debug: true, anns: al})
		}
	}
	for _, a := range small {
		for _, b := range small {
			idx, run := h.NextN()
			if !run {
				continue
			}
			checkReport(h, hx.CaseID(idx), files, []diagSpec{a, b})
		}
	}
}

func build(files []*source.File, ds []diagSpec) *report.Report {
	r := &report.Report{}
	r.KeepDuplicates = true
	for _, d := range ds {
		var opts []report.DiagnosticOption
		if d.tag != "" {
			opts = append(opts, report.Tag(d.tag))
		}
		if d.inFile != "" {
			opts = append(opts, report.InFile(d.inFile))
		}
		for _, a := range d.anns {
			sp := files[a.file].Span(a.start, a.end)
			switch a.edit {
			case 0:
				opts = append(opts, report.Snippetf(sp, "%s", a.msg))
			case 1:
				opts = append(opts, report.SuggestEdits(sp, a.msg, report.Edit{Start: 0, End: a.end - a.start, Replace: "r"}))
			case 2:
				opts = append(opts, report.SuggestEdits(sp, a.msg, report.Edit{Start: 0, End: 0, Replace: "i"}))
			}
		}
		if d.notes {
			opts = append(opts, report.Notef("note"))
		}
		if d.help {
			opts = append(opts, report.Helpf("help"))
		}
		if d.debug {
			opts = append(opts, report.Debugf("debug"))
		}
		r.Levelf(d.level, "m%d", len(d.anns)).Apply(opts...)
	}
	return r
}

func checkReport(h *hx.H, id string, files []*source.File, ds []diagSpec) {
	h.Eval(1)
	h.State(1)
	h.Trans(1)
	nontrivial := false
	for _, d := range ds {
		if len(d.anns) > 0 {
			nontrivial = true
		}
	}
	if nontrivial {
		h.NonTrivial++
	}
	desc := func() string { return fmt.Sprintf("%+v", ds) }
	defer func() {
		if p := recover(); p != nil {
			h.Violate("report-panic", id, fmt.Sprintf("report %s: panic %v", desc(), p), nil)
		}
	}()
	r := build(files, ds)
	if len(r.Diagnostics) != len(ds) {
		h.Infra = append(h.Infra, fmt.Sprintf("harness could not build report %s", desc()))
		return
	}
	p1 := r.ToProto()
	b, err := proto.Marshal(p1)
	if err != nil {
		h.Violate("report-marshal", id, fmt.Sprintf("report %s: %v", desc(), err), nil)
		return
	}
	h.Trace(1)
	r2 := &report.Report{}
	if err := r2.AppendFromProto(func(m proto.Message) error { return proto.Unmarshal(b, m) }); err != nil {
		sig := "report-decode-rejected"
		for _, d := range ds {
			if d.level == report.ICE {
				sig = "report-decode-rejects-ice"
			}
		}
		if sig == "report-decode-rejected" {
			for _, d := range ds {
				for _, a := range d.anns {
					if a.start == len(files[a.file].Text()) {
						sig = "report-decode-rejects-eof-span"
					}
				}
			}
		}
		h.Violate(sig, id, fmt.Sprintf("report %s: decoding its own encoding fails: %v", desc(), err), nil)
		return
	}
	if h.WantSample() && nontrivial && len(ds) == 1 && len(ds[0].anns) == 2 {
		h.Sample(map[string]any{"case": id, "report": desc()})
	}
	if len(r2.Diagnostics) != len(r.Diagnostics) {
		h.Violate("report-roundtrip", id, fmt.Sprintf("report %s: %d diagnostics after the round trip", desc(), len(r2.Diagnostics)), nil)
		return
	}
	for i := range r.Diagnostics {
		a, b := &r.Diagnostics[i], &r2.Diagnostics[i]
		pa, pb := a.Primary(), b.Primary()
		same := a.Level() == b.Level() && a.Message() == b.Message() && a.Tag() == b.Tag() && a.File() == b.File() &&
			fmt.Sprint(a.Notes()) == fmt.Sprint(b.Notes()) && fmt.Sprint(a.Help()) == fmt.Sprint(b.Help()) && fmt.Sprint(a.Debug()) == fmt.Sprint(b.Debug()) &&
			pa.Start == pb.Start && pa.End == pb.End && pa.Path() == pb.Path() && (pa.IsZero() || pa.File.Text() == pb.File.Text())
		if !same {
			h.Violate("report-roundtrip", id, fmt.Sprintf("report %s: diagnostic %d differs after the round trip", desc(), i), nil)
			return
		}
	}
	if !proto.Equal(p1, r2.ToProto()) {
		h.Violate("report-roundtrip", id, fmt.Sprintf("report %s: re-encoding after the round trip differs:\n%v\n%v", desc(), p1, r2.ToProto()), nil)
	}
}
