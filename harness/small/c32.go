package main

import (
	"fmt"
	"strings"
	"unicode/utf8"

	"github.com/bufbuild/protocompile/experimental/source"
	"github.com/bufbuild/protocompile/experimental/source/length"
	"github.com/bufbuild/protocompile/internal/zzverif/hx"
)

func init() { props["C32"] = runC32 }

func runC32(h *hx.H) {
	h.Rule = "every text of <=4 (quick) / <=6 (thorough) runes over {a, e-acute (2 bytes), euro (3 bytes), emoji (4 bytes, 2 UTF-16 units), LF} x every rune-boundary offset including len(text) x units {Bytes, UTF16, Runes}: InverseLocation(Location(off)) == off and Line == 1 + newlines before off; non-trivial = text with a multi-byte rune or a newline"
	alpha := []string{"a", "é", "€", "😀", "\n"}
	maxLen := 4
	if h.Thorough() {
		maxLen = 6
	}
	units := []length.Unit{length.Bytes, length.UTF16, length.Runes}
	var rec func(s string, n int)
	rec = func(s string, n int) {
		if idx, run := h.NextN(); run {
			id := hx.CaseID(idx)
			h.Eval(1)
			h.State(1)
			h.Trace(1)
			if len(s) != n {
				h.NonTrivial++
			}
			f := source.NewFile("t.proto", s)
			for off := 0; off <= len(s); off++ {
				if off < len(s) && !utf8.RuneStart(s[off]) {
					continue
				}
				for _, u := range units {
					h.Trans(1)
					func() {
						defer func() {
							if p := recover(); p != nil {
								h.Violate("location-panic", id, fmt.Sprintf("text %q offset %d unit %v: panic %v", s, off, u, p), nil)
							}
						}()
						loc := f.Location(off, u)
						if want := 1 + strings.Count(s[:off], "\n"); loc.Line != want {
							h.Violate("location-line", id, fmt.Sprintf("text %q offset %d unit %v: line %d, want %d", s, off, u, loc.Line, want), nil)
							return
						}
						back := f.InverseLocation(loc.Line, loc.Column, u)
						if back.Offset != off {
							sig := "inverse-location"
							h.Violate(sig, id, fmt.Sprintf("text %q offset %d unit %v: Location = %d:%d, InverseLocation gives offset %d", s, off, u, loc.Line, loc.Column, back.Offset), nil)
						}
					}()
				}
			}
			if h.WantSample() && n >= 3 && len(s) != n {
				h.Sample(map[string]any{"case": id, "text": s})
			}
		}
		if n == maxLen || h.TooMany() {
			return
		}
		for _, a := range alpha {
			rec(s+a, n+1)
		}
	}
	rec("", 0)
}
