// Harness for the small exhaustive model checks with self-contained oracles:
// every operation sequence / input up to a bound against a naive reference model.
package main

import (
	"os"

	"github.com/bufbuild/protocompile/internal/zzverif/hx"
)

var props = map[string]func(h *hx.H){}

func main() {
	prop := ""
	for i, a := range os.Args {
		if a == "-prop" && i+1 < len(os.Args) {
			prop = os.Args[i+1]
			os.Args = append(os.Args[:i], os.Args[i+2:]...)
			break
		}
	}
	hx.Main(prop, func(h *hx.H) {
		f, ok := props[prop]
		if !ok {
			h.Infra = append(h.Infra, "unknown property "+prop)
			return
		}
		f(h)
	})
}
