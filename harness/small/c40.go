package main

import (
	"fmt"
	"sort"

	"github.com/bufbuild/protocompile/internal/interval"
	"github.com/bufbuild/protocompile/internal/zzverif/hx"
)

func init() { props["C40"] = runC40 }

type iv struct{ a, b int }

func runC40(h *hx.H) {
	h.Rule = "all insertion sequences over all intervals [a,b] within [0,hi]: (hi=4,len<=3) and (hi=3,len<=5) quick; (4,<=5), (3,<=6), (5,<=4) thorough, value = insertion index; Intersect checked against a naive list model after every insertion (sorted, disjoint, Get on every point of [-1,5], disjointness flag), Nesting checked for multiset preservation and pairwise disjoint-or-strictly-nested sets; non-trivial = sequence containing two overlapping intervals"
	type dom struct{ hi, maxLen int }
	doms := []dom{{4, 3}, {3, 5}}
	if h.Thorough() {
		doms = []dom{{4, 5}, {3, 6}, {5, 4}}
	}
	for _, d := range doms {
		var ivs []iv
		for a := 0; a <= d.hi; a++ {
			for b := a; b <= d.hi; b++ {
				ivs = append(ivs, iv{a, b})
			}
		}
		seq := make([]iv, 0, d.maxLen)
		var rec func()
		rec = func() {
			if len(seq) > 0 {
				if idx, run := h.NextN(); run {
					checkIntervalSeq(h, hx.CaseID(idx), seq)
				}
			}
			if len(seq) == d.maxLen || h.TooMany() {
				return
			}
			for _, x := range ivs {
				seq = append(seq, x)
				rec()
				seq = seq[:len(seq)-1]
			}
		}
		rec()
	}
}

func overlaps(x, y iv) bool { return x.a <= y.b && y.a <= x.b }

func checkIntervalSeq(h *hx.H, id string, seq []iv) {
	h.Eval(1)
	h.State(1)
	h.Trans(int64(len(seq)))
	h.Trace(1)
	nontrivial := false
	for i := range seq {
		for j := 0; j < i; j++ {
			if overlaps(seq[i], seq[j]) {
				nontrivial = true
			}
		}
	}
	if nontrivial {
		h.NonTrivial++
	}
	if h.WantSample() && nontrivial && len(seq) >= 3 {
		h.Sample(map[string]any{"case": id, "insertions": fmt.Sprint(seq)})
	}
	// ---- Intersect ----
	var m interval.Intersect[int, int]
	fail := func(sig, format string, args ...any) {
		h.Violate(sig, id, fmt.Sprintf("insertions %v: ", seq)+fmt.Sprintf(format, args...), nil)
	}
	func() {
		defer func() {
			if p := recover(); p != nil {
				fail("intersect-panic", "panic: %v", p)
			}
		}()
		for i, x := range seq {
			disj := m.Insert(x.a, x.b, i)
			// Fingerprint of the recorded defect (known_findings.json): Insert over two
			// adjacent entries stores an empty entry [e+1,e] under key e. Only this
			// exact shape is attributed to it; anything else keeps its own signature.
			for e := range m.Entries() {
				if e.Start == e.End+1 {
					fail("intersect-adjacent-gap", "after %d insertions: empty entry [%d,%d] replaced the entry ending at %d", i+1, e.Start, e.End, e.End)
					return
				}
			}
			want := true
			for j := 0; j < i; j++ {
				if overlaps(x, seq[j]) {
					want = false
				}
			}
			if disj != want {
				fail("intersect-disjoint-flag", "Insert #%d %v returned disjoint=%v, want %v", i, x, disj, want)
				return
			}
			// entries sorted and pairwise disjoint, non-empty
			prevEnd := -100
			for e := range m.Entries() {
				if e.Start > e.End {
					fail("intersect-empty-entry", "after %d insertions: empty entry [%d,%d]", i+1, e.Start, e.End)
					return
				}
				if e.Start <= prevEnd {
					fail("intersect-entries-overlap", "after %d insertions: entry [%d,%d] not after previous end %d", i+1, e.Start, e.End, prevEnd)
					return
				}
				prevEnd = e.End
			}
			for p := -1; p <= 6; p++ {
				var exp []int
				for j := 0; j <= i; j++ {
					if seq[j].a <= p && p <= seq[j].b {
						exp = append(exp, j)
					}
				}
				got := m.Get(p)
				if fmt.Sprint(got.Value) != fmt.Sprint(exp) && !(len(got.Value) == 0 && len(exp) == 0) {
					fail("intersect-get", "after %d insertions: Get(%d) = %v, want %v", i+1, p, got.Value, exp)
					return
				}
				if len(exp) > 0 && !(got.Start <= p && p <= got.End) {
					fail("intersect-get-range", "after %d insertions: Get(%d) entry [%d,%d] does not contain the point", i+1, p, got.Start, got.End)
					return
				}
			}
		}
	}()
	// ---- Nesting ----
	func() {
		defer func() {
			if p := recover(); p != nil {
				fail("nesting-panic", "panic: %v", p)
			}
		}()
		var n interval.Nesting[int, int]
		for i, x := range seq {
			n.Insert(x.a, x.b, i)
		}
		var got []string
		for set := range n.Sets() {
			var es []iv
			for e := range set {
				es = append(es, iv{e.Start, e.End})
				got = append(got, fmt.Sprintf("%d:%d-%d", e.Value, e.Start, e.End))
			}
			for i := range es {
				for j := 0; j < i; j++ {
					x, y := es[i], es[j]
					if !overlaps(x, y) {
						continue
					}
					xInY := y.a <= x.a && x.b <= y.b && x != y
					yInX := x.a <= y.a && y.b <= x.b && x != y
					if !xInY && !yInX {
						fail("nesting-set-not-nested", "a set holds %v and %v, which overlap without one being a proper subset", x, y)
						return
					}
				}
			}
		}
		var want []string
		for i, x := range seq {
			want = append(want, fmt.Sprintf("%d:%d-%d", i, x.a, x.b))
		}
		sort.Strings(got)
		sort.Strings(want)
		if fmt.Sprint(got) != fmt.Sprint(want) {
			fail("nesting-loses-interval", "sets hold %v, inserted %v", got, want)
		}
	}()
}
