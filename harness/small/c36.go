package main

import (
	"fmt"
	"strings"

	"google.golang.org/protobuf/proto"

	"github.com/bufbuild/protocompile/experimental/report"
	"github.com/bufbuild/protocompile/experimental/source"
	"github.com/bufbuild/protocompile/internal/zzverif/hx"
)

func init() { props["C36"] = runC36b }

type dspec struct {
	file       int
	start, end int
	tag, msg   string
	level      report.Level
	note       string
	stage      int
}

func (d dspec) String() string {
	return fmt.Sprintf("{f%d [%d,%d) tag=%q msg=%q level=%d note=%q stage=%d}", d.file, d.start, d.end, d.tag, d.msg, d.level, d.note, d.stage)
}

// runC36b: Canonicalize is independent of the input order and idempotent.
func runC36b(h *hx.H) {
	h.Rule = "every list of <=4 (quick) / <=5 (thorough) diagnostics drawn (with repetition) from a pool with ties on every prefix of the sort key (file, stage, start, end, tag, message) and differences only in non-key fields (level, notes) x every permutation: the canonical form must be the same for all permutations (compared by full re-encoding) and canonicalizing twice must change nothing; non-trivial = list holding two diagnostics with equal sort keys or equal dedup keys"
	files := []*source.File{source.NewFile("a.proto", "abcdef\n"), source.NewFile("b.proto", "abcdef\n")}
	pool := []dspec{
		{0, 0, 1, "", "m", report.Error, "", 0},
		{0, 0, 1, "", "m", report.Warning, "", 0},   // key-tied with the first, differs in level
		{0, 0, 1, "", "m", report.Error, "n", 0},    // key-tied, differs in notes
		{0, 0, 1, "t", "m", report.Error, "", 0},    // tagged: dedup candidates
		{0, 0, 1, "t", "m2", report.Error, "", 0},   // same dedup key, different message
		{0, 0, 1, "t", "m", report.Warning, "x", 0}, // same dedup key and sort key, differs elsewhere
		{0, 0, 2, "t", "m", report.Error, "", 0},
		{0, 1, 2, "", "m", report.Error, "", 0},
		{1, 0, 1, "t", "m", report.Error, "", 0},
		{0, 0, 1, "", "m", report.Error, "", 1}, // later stage
	}
	maxLen := 4
	if h.Thorough() {
		maxLen = 5
	}
	var list []int
	var rec func(from int)
	rec = func(from int) {
		if len(list) >= 2 {
			if idx, run := h.NextN(); run {
				checkCanon(h, hx.CaseID(idx), files, pool, list)
			}
		}
		if len(list) == maxLen || h.TooMany() {
			return
		}
		for i := from; i < len(pool); i++ { // multisets: permutations are generated below
			list = append(list, i)
			rec(i)
			list = list[:len(list)-1]
		}
	}
	rec(0)
}

func buildDiags(files []*source.File, pool []dspec, order []int) *report.Report {
	r := &report.Report{}
	for _, i := range order {
		d := pool[i]
		r.Stage = d.stage
		opts := []report.DiagnosticOption{report.Snippet(files[d.file].Span(d.start, d.end))}
		if d.tag != "" {
			opts = append(opts, report.Tag(d.tag))
		}
		if d.note != "" {
			opts = append(opts, report.Notef("%s", d.note))
		}
		r.Levelf(d.level, "%s", d.msg).Apply(opts...)
	}
	return r
}

func render(r *report.Report) string {
	var b strings.Builder
	for i := range r.Diagnostics {
		d := &r.Diagnostics[i]
		p := d.Primary()
		fmt.Fprintf(&b, "%s[%d,%d) tag=%q msg=%q level=%d notes=%v | ", p.Path(), p.Start, p.End, d.Tag(), d.Message(), d.Level(), d.Notes())
	}
	return b.String()
}

func checkCanon(h *hx.H, id string, files []*source.File, pool []dspec, multiset []int) {
	h.Eval(1)
	h.State(1)
	h.Trace(1)
	tied := false
	for i := range multiset {
		for j := 0; j < i; j++ {
			a, b := pool[multiset[i]], pool[multiset[j]]
			if a.file == b.file && a.start == b.start && a.end == b.end && a.tag == b.tag && a.stage == b.stage && (a.msg == b.msg || a.tag != "") {
				tied = true
			}
		}
	}
	if tied {
		h.NonTrivial++
	}
	var first string
	var firstOrder []int
	desc := func(o []int) string {
		var s []string
		for _, i := range o {
			s = append(s, pool[i].String())
		}
		return strings.Join(s, ", ")
	}
	nperm := 0
	permute(multiset, func(order []int) bool {
		nperm++
		h.Trans(1)
		r := buildDiags(files, pool, order)
		r.Canonicalize()
		got := render(r)
		p1 := proto.Clone(r.ToProto())
		r.Canonicalize()
		if again := render(r); again != got || !proto.Equal(p1, r.ToProto()) {
			h.Violate("canonicalize-not-idempotent", id, fmt.Sprintf("input order [%s]: canonicalizing twice changes the result:\n  %s\n  %s", desc(order), got, again), nil)
			return false
		}
		if first == "" {
			first, firstOrder = got, append([]int(nil), order...)
			return true
		}
		if got != first {
			// the recorded defect only explains lists that hold two diagnostics tied on the
			// whole sort key yet different elsewhere; anything else keeps its own signature
			sig := "canonicalize-order-dependent-without-key-tie"
			for i := range multiset {
				for j := 0; j < i; j++ {
					a, b := pool[multiset[i]], pool[multiset[j]]
					if a.file == b.file && a.stage == b.stage && a.start == b.start && a.end == b.end && a.tag == b.tag && a.msg == b.msg && a != b {
						sig = "canonicalize-order-dependent"
					}
				}
			}
			h.Violate(sig, id, fmt.Sprintf("the canonical form depends on the input order:\n  [%s] -> %s\n  [%s] -> %s", desc(firstOrder), first, desc(order), got), nil)
			return false
		}
		return true
	})
	if h.WantSample() && tied && len(multiset) >= 3 {
		h.Sample(map[string]any{"case": id, "diagnostics": desc(multiset), "permutations": nperm})
	}
}

// permute calls f with every distinct permutation of xs (xs sorted ascending).
func permute(xs []int, f func([]int) bool) {
	a := append([]int(nil), xs...)
	for {
		if !f(a) {
			return
		}
		// next lexicographic permutation
		i := len(a) - 2
		for i >= 0 && a[i] >= a[i+1] {
			i--
		}
		if i < 0 {
			return
		}
		j := len(a) - 1
		for a[j] <= a[i] {
			j--
		}
		a[i], a[j] = a[j], a[i]
		for l, r := i+1, len(a)-1; l < r; l, r = l+1, r-1 {
			a[l], a[r] = a[r], a[l]
		}
	}
}
