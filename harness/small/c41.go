package main

import (
	"fmt"
	"iter"
	"strings"

	"github.com/bufbuild/protocompile/internal/toposort"
	"github.com/bufbuild/protocompile/internal/trie"
	"github.com/bufbuild/protocompile/internal/zzverif/hx"
)

func init() { props["C41"] = runC41 }

func runC41(h *hx.H) {
	h.Rule = "toposort: every digraph on <=3 (quick) / <=4 (thorough) nodes x every ordered root list of <=2 nodes (duplicates allowed), each sorted on a fresh Sorter and on one used before (a complete iteration, or one the consumer left after 1 or 2 nodes); trie: every ordered list of <=3 keys over strings of length <=3 from {a,b} x every query of length <=4, every ordered pair of keys of <=2 bytes over {a, q, 0xC3, 0xA9, 0xE9, NUL, 0xFF} x every query of <=3 such bytes, plus growth families that force the node index width to grow; non-trivial = graph with >=1 edge / key set with a shared prefix"
	maxN := 3
	if h.Thorough() {
		maxN = 4
	}
	for n := 1; n <= maxN; n++ {
		var rootLists [][]int
		for a := 0; a < n; a++ {
			rootLists = append(rootLists, []int{a})
			for b := 0; b < n; b++ {
				rootLists = append(rootLists, []int{a, b})
			}
		}
		for m := 0; m < 1<<(n*n); m++ {
			for _, roots := range rootLists {
				idx, run := h.NextN()
				if !run {
					continue
				}
				checkTopo(h, hx.CaseID(idx), n, m, roots)
			}
			if h.TooMany() {
				return
			}
		}
	}
	runTrie(h)
}

func checkTopo(h *hx.H, id string, n, m int, roots []int) {
	h.Eval(1)
	h.State(1)
	h.Trace(1)
	adj := func(i, j int) bool { return m&(1<<(i*n+j)) != 0 }
	edges := 0
	for i := 0; i < n*n; i++ {
		if m&(1<<i) != 0 {
			edges++
		}
	}
	h.Trans(int64(edges))
	if edges > 0 {
		h.NonTrivial++
	}
	desc := func() string {
		var b strings.Builder
		for i := 0; i < n; i++ {
			for j := 0; j < n; j++ {
				if adj(i, j) {
					fmt.Fprintf(&b, "%d->%d ", i, j)
				}
			}
		}
		return fmt.Sprintf("n=%d edges[%s] roots=%v", n, strings.TrimSpace(b.String()), roots)
	}
	// reachability and cyclicity
	reach := make([]bool, n)
	var stack []int
	for _, r := range roots {
		if !reach[r] {
			reach[r] = true
			stack = append(stack, r)
		}
	}
	for len(stack) > 0 {
		i := stack[len(stack)-1]
		stack = stack[:len(stack)-1]
		for j := 0; j < n; j++ {
			if adj(i, j) && !reach[j] {
				reach[j] = true
				stack = append(stack, j)
			}
		}
	}
	color := make([]int, n)
	var dfs func(i int) bool
	dfs = func(i int) bool {
		color[i] = 1
		for j := 0; j < n; j++ {
			if adj(i, j) && (color[j] == 1 || color[j] == 0 && dfs(j)) {
				return true
			}
		}
		color[i] = 2
		return false
	}
	cyclic := false
	for i := 0; i < n; i++ {
		if reach[i] && color[i] == 0 && dfs(i) {
			cyclic = true
		}
	}
	if h.WantSample() && edges >= 3 && !cyclic {
		h.Sample(map[string]any{"case": id, "toposort": desc()})
	}
	dag := func(i int) iter.Seq[int] {
		return func(yield func(int) bool) {
			for j := 0; j < n; j++ {
				if adj(i, j) && !yield(j) {
					return
				}
			}
		}
	}
	// The sort under test runs on a Sorter in its initial state and on one that was used before:
	// a complete iteration, or one that the consumer left after 1 or 2 nodes.
	for prior := 0; prior < 4; prior++ {
		if !sortOnce(h, id, desc, n, roots, adj, dag, reach, cyclic, prior) {
			return
		}
	}
}

func sortOnce(h *hx.H, id string, desc func() string, n int, roots []int, adj func(i, j int) bool, dag func(int) iter.Seq[int], reach []bool, cyclic bool, prior int) bool {
	if prior > 0 {
		id += fmt.Sprintf("/after-%s", []string{"", "complete-iteration", "break-after-1", "break-after-2"}[prior])
		inner := desc
		desc = func() string {
			return inner() + " on a Sorter used before (" + []string{"", "complete iteration", "iteration left after 1 node", "iteration left after 2 nodes"}[prior] + ")"
		}
		h.State(1)
	}
	var out []int
	var panicked any
	func() {
		defer func() { panicked = recover() }()
		sorter := toposort.Sorter[int, int]{Key: func(i int) int { return i }}
		seq := sorter.Sort(roots, dag)
		if prior > 0 {
			func() {
				defer func() { recover() }() // (a cyclic input panics: recorded finding, reported by prior == 0)
				k := 0
				for range seq {
					k++
					if prior > 1 && k == prior-1 {
						break
					}
				}
			}()
		}
		steps := 0
		for v := range seq {
			out = append(out, v)
			steps++
			if steps > 100 {
				panic("toposort yields more than 100 nodes")
			}
		}
	}()
	if panicked != nil {
		if cyclic && strings.Contains(fmt.Sprint(panicked), "cycle detected") {
			h.Violate("toposort-cycle-panic", id, fmt.Sprintf("%s: Sort panics on cyclic input: %v", desc(), panicked), nil)
		} else {
			h.Violate("toposort-panic", id, fmt.Sprintf("%s: panic: %v", desc(), panicked), nil)
		}
		return false
	}
	pos := make([]int, n)
	for i := range pos {
		pos[i] = -1
	}
	for k, v := range out {
		if v < 0 || v >= n || !reach[v] {
			h.Violate("toposort-unreachable", id, fmt.Sprintf("%s: yields %d which is not reachable; output %v", desc(), v, out), nil)
			return false
		}
		if pos[v] != -1 {
			h.Violate("toposort-duplicate", id, fmt.Sprintf("%s: yields %d twice; output %v", desc(), v, out), nil)
			return false
		}
		pos[v] = k
	}
	for i := 0; i < n; i++ {
		if reach[i] && pos[i] == -1 {
			h.Violate("toposort-missing", id, fmt.Sprintf("%s: reachable node %d not yielded; output %v", desc(), i, out), nil)
			return false
		}
	}
	if !cyclic {
		for i := 0; i < n; i++ {
			for j := 0; j < n; j++ {
				if reach[i] && adj(i, j) && pos[j] > pos[i] {
					h.Violate("toposort-order", id, fmt.Sprintf("%s: %d yielded before its child %d; output %v", desc(), i, j, out), nil)
					return false
				}
			}
		}
	}
	return true
}

func runTrie(h *hx.H) {
	var keys []string
	var gen func(p string)
	gen = func(p string) {
		keys = append(keys, p)
		if len(p) == 3 {
			return
		}
		gen(p + "a")
		gen(p + "b")
	}
	gen("")
	var queries []string
	var genq func(p string)
	genq = func(p string) {
		queries = append(queries, p)
		if len(p) == 4 {
			return
		}
		genq(p + "a")
		genq(p + "b")
		if len(p) < 2 {
			genq(p + "c")
		}
	}
	genq("")
	check := func(id string, ks []string) {
		h.Eval(1)
		h.State(1)
		h.Trace(1)
		h.Trans(int64(len(ks) * len(queries)))
		shared := false
		for i := range ks {
			for j := range ks {
				if i != j && strings.HasPrefix(ks[i], ks[j]) {
					shared = true
				}
			}
		}
		if shared {
			h.NonTrivial++
		}
		var t trie.Trie[int]
		ref := map[string]int{}
		defer func() {
			if p := recover(); p != nil {
				h.Violate("trie-panic", id, fmt.Sprintf("keys %q: panic: %v", ks, p), nil)
			}
		}()
		for i, k := range ks {
			t.Insert(k, i)
			ref[k] = i
		}
		for _, q := range queries {
			var want []string
			for l := 0; l <= len(q); l++ {
				if v, ok := ref[q[:l]]; ok {
					want = append(want, fmt.Sprintf("%s=%d", q[:l], v))
				}
			}
			var got []string
			for p, v := range t.Prefixes(q) {
				got = append(got, fmt.Sprintf("%s=%d", p, v))
			}
			if fmt.Sprint(got) != fmt.Sprint(want) {
				h.Violate("trie-prefixes", id, fmt.Sprintf("keys %q query %q: Prefixes = %v, want %v", ks, q, got, want), nil)
				return
			}
			p, v := t.Get(q)
			wantGet := "=0"
			if len(want) > 0 {
				wantGet = want[len(want)-1]
			}
			if g := fmt.Sprintf("%s=%d", p, v); g != wantGet {
				h.Violate("trie-get", id, fmt.Sprintf("keys %q query %q: Get = %s, want %s", ks, q, g, wantGet), nil)
				return
			}
		}
	}
	for _, a := range keys {
		if idx, run := h.NextN(); run {
			check(hx.CaseID(idx), []string{a})
		}
		for _, b := range keys {
			if idx, run := h.NextN(); run {
				check(hx.CaseID(idx), []string{a, b})
			}
			for _, c := range keys {
				if idx, run := h.NextN(); run {
					check(hx.CaseID(idx), []string{a, b, c})
				}
			}
		}
	}
	// keys and queries as byte strings: every ordered pair of keys of <=2 bytes over
	// {a, q, 0xC3, 0xA9, 0xE9, 0x00, 0xFF} (UTF-8 lead and continuation bytes, a Latin-1 byte that is
	// the rune of the two-byte sequence, NUL, an invalid byte), queries of <=3 bytes over the same
	{
		balpha := []string{"a", "q", "\xc3", "\xa9", "\xe9", "\x00", "\xff"}
		var bkeys, bqueries []string
		var g func(p string, n int, out *[]string)
		g = func(p string, n int, out *[]string) {
			*out = append(*out, p)
			if len(p) == n {
				return
			}
			for _, c := range balpha {
				g(p+c, n, out)
			}
		}
		g("", 2, &bkeys)
		g("", 3, &bqueries)
		saved := queries
		queries = bqueries
		for _, a := range bkeys {
			if idx, run := h.NextN(); run {
				check(hx.CaseID(idx), []string{a})
			}
			for _, b := range bkeys {
				if idx, run := h.NextN(); run {
					check(hx.CaseID(idx), []string{a, b})
				}
			}
		}
		queries = saved
	}
	// growth families: node index width 8 -> 16 -> 32 bits; every key re-checked after growth steps
	sizes := []int{400}
	if h.Thorough() {
		sizes = append(sizes, 70000)
	}
	for _, size := range sizes {
		idx, run := h.NextN()
		if !run {
			continue
		}
		id := hx.CaseID(idx)
		h.Eval(1)
		h.State(1)
		h.Trace(1)
		var t trie.Trie[int]
		step := 1
		if size > 1000 {
			step = 4099
		}
		bad := false
		for i := 0; i < size && !bad; i++ {
			t.Insert(fmt.Sprintf("k%05d", i), i)
			if i%step == 0 || i == size-1 || i == 255 || i == 256 || i == 65535 || i == 65536 {
				for j := 0; j <= i; j += max(1, i/997) {
					k := fmt.Sprintf("k%05d", j)
					p, v := t.Get(k + "x")
					h.Trans(1)
					if p != k || v != j {
						h.Violate("trie-growth", id, fmt.Sprintf("after inserting %d keys: Get(%q) = %q,%d", i+1, k+"x", p, v), nil)
						bad = true
						break
					}
				}
			}
		}
		h.NonTrivial++
	}
}
