package main

import (
	"fmt"
	"math"
	"math/big"
	"strconv"
	"strings"

	"github.com/bufbuild/protocompile/internal/decimal"
	"github.com/bufbuild/protocompile/internal/zzverif/hx"
)

func init() { props["C39"] = runC39 }

// numeral = sign? mantissa-digits with a dot position, decimal (or binary, for hex) exponent
type numeral struct {
	text string
	val  *big.Rat
}

func decNumeral(digits string, frac int, exp int, spelling int) numeral {
	// value = digits * 10^(exp-frac)
	n, _ := new(big.Int).SetString(digits, 10)
	r := new(big.Rat).SetInt(n)
	e := exp - frac
	p := new(big.Int).Exp(big.NewInt(10), big.NewInt(int64(abs(e))), nil)
	if e >= 0 {
		r.Mul(r, new(big.Rat).SetInt(p))
	} else {
		r.Quo(r, new(big.Rat).SetInt(p))
	}
	var m string
	switch {
	case frac == 0:
		m = digits
		if spelling == 1 {
			m += "."
		}
		if spelling == 2 {
			m = "00" + m
		}
	case frac >= len(digits):
		m = "0." + strings.Repeat("0", frac-len(digits)) + digits
		if spelling == 1 {
			m = m[1:]
		}
		if spelling == 2 {
			m += "00"
		}
	default:
		m = digits[:len(digits)-frac] + "." + digits[len(digits)-frac:]
		if spelling == 2 {
			m += "0"
		}
	}
	t := m
	if exp != 0 || spelling == 3 {
		ec := "e"
		if spelling == 1 {
			ec = "E"
		}
		sign := ""
		if exp >= 0 && spelling == 2 {
			sign = "+"
		}
		t += ec + sign + strconv.Itoa(exp)
	}
	return numeral{t, r}
}

func hexNumeral(hexdigits string, frac int, exp int) numeral {
	n, _ := new(big.Int).SetString(hexdigits, 16)
	r := new(big.Rat).SetInt(n)
	e := exp - 4*frac
	p := new(big.Int).Lsh(big.NewInt(1), uint(abs(e)))
	if e >= 0 {
		r.Mul(r, new(big.Rat).SetInt(p))
	} else {
		r.Quo(r, new(big.Rat).SetInt(p))
	}
	m := hexdigits
	if frac > 0 {
		if frac >= len(hexdigits) {
			m = "0." + strings.Repeat("0", frac-len(hexdigits)) + hexdigits
		} else {
			m = hexdigits[:len(hexdigits)-frac] + "." + hexdigits[len(hexdigits)-frac:]
		}
	}
	return numeral{fmt.Sprintf("0x%sp%d", m, exp), r}
}

func abs(x int) int {
	if x < 0 {
		return -x
	}
	return x
}

func runC39(h *hx.H) {
	h.Rule = "structured numeral families, all members: mantissas {small, 2^53-1..2^53+2, 2^54+2, halfway points (2k+1)*2^t, 17-25 digit patterns ...5 / ...50..01 / ...49..9} x every decimal exponent -345..310 x dot positions x spellings; hex floats over mantissa patterns x binary exponents -1080..1030; every numeral of <=5 characters over {0,1,5,9,.,e,-}; oracle big.Rat.Float64 (nearest-even, exactness) cross-checked with strconv.ParseFloat; non-trivial = numeral whose value is not exactly representable"
	mants := []string{"1", "2", "3", "5", "7", "9", "10", "15", "25", "123", "9007199254740991", "9007199254740992", "9007199254740993", "9007199254740994", "18014398509481986",
		"12345678901234567", "99999999999999999", "10000000000000001", "123456789012345678901", "1000000000000000000001", "4999999999999999999999", "5000000000000000000001", "1234567890123456789012345",
		"17976931348623157", "17976931348623158", "22250738585072014", "22250738585072011", "49406564584124654", "24703282292062327", "24703282292062328"}
	// halfway points between adjacent float64 values: (2k+1) * 2^t, rendered in decimal (exact integers)
	for _, k := range []int64{1, 2, 3, 1 << 20} {
		for _, t := range []uint{1, 2, 10, 30} {
			v := new(big.Int).Lsh(big.NewInt(1), 53)
			v.Add(v, big.NewInt(2*k+1))
			v.Lsh(v, t)
			// the odd lowest mantissa bit makes v a halfway case after dropping 1 bit
			mants = append(mants, new(big.Int).Rsh(v, 1).String(), v.String())
		}
	}
	if h.Thorough() {
		for i := int64(0); i < 64; i++ {
			mants = append(mants, strconv.FormatInt((1<<53)-32+i, 10), strconv.FormatInt((1<<54)-64+2*i+1, 10))
		}
	}
	expLo, expHi := -345, 310
	check := func(nm numeral, neg bool) {
		idx, run := h.NextN()
		if !run {
			return
		}
		text := nm.text
		val := nm.val
		if neg {
			text = "-" + text
			val = new(big.Rat).Neg(val)
		}
		checkNumeral(h, hx.CaseID(idx), text, val)
	}
	for _, m := range mants {
		fracs := []int{0, 1, len(m)}
		if len(m) > 3 {
			fracs = append(fracs, len(m)/2)
		}
		for _, frac := range fracs {
			for exp := expLo; exp <= expHi; exp++ {
				nsp := 1
				if exp%7 == 0 || h.Thorough() {
					nsp = 4
				}
				for sp := 0; sp < nsp; sp++ {
					check(decNumeral(m, frac, exp, sp), sp == 3)
				}
			}
		}
		if h.TooMany() {
			return
		}
	}
	// long mantissas around exact halfway points: the decimal expansion of a midpoint
	// between two adjacent float64 values followed by a tail of zeros and a final 1
	// (just above the midpoint) or, with the last digit lowered, a tail of nines (just
	// below); the decision then rests on digits far beyond the 17th
	mids := []string{"9007199254740993", "18014398509481986", "36028797018963972", "9007199254740995"}
	{
		// 1 + 2^-53 and 2^-1074 * 1.5 written out exactly
		one := new(big.Rat).SetFrac(new(big.Int).Add(new(big.Int).Lsh(big.NewInt(1), 53), big.NewInt(1)), new(big.Int).Lsh(big.NewInt(1), 53))
		mids = append(mids, "F"+one.FloatString(53))
	}
	tails := []int{1, 20, 50, 100, 400}
	if h.Thorough() {
		tails = append(tails, 2, 5, 30, 63, 64, 65, 200, 800)
	}
	for _, mid := range mids {
		frac := 0
		digits := mid
		if strings.HasPrefix(mid, "F") {
			ip, fp, _ := strings.Cut(mid[1:], ".")
			fp = strings.TrimRight(fp, "0")
			digits, frac = ip+fp, len(fp)
		}
		for _, tl := range tails {
			above := digits + strings.Repeat("0", tl-1) + "1"
			lowered := new(big.Int)
			lowered.SetString(digits, 10)
			lowered.Sub(lowered, big.NewInt(1))
			below := lowered.String() + strings.Repeat("9", tl)
			for _, d := range []string{above, below, digits + strings.Repeat("0", tl)} {
				for _, exp := range []int{0, -5, 7, -300, 280} {
					check(decNumeral(d, frac+tl, exp, 0), false)
					check(decNumeral(d, 0, exp-frac-tl, 0), true)
				}
			}
		}
	}
	// hex floats
	hexm := []string{"1", "3", "f", "10", "1fffffffffffff", "20000000000001", "3fffffffffffff", "1ffffffffffffff", "10000000000000000000001", "abcdef0123456789abcdef"}
	step := 1
	if !h.Thorough() {
		step = 3
	}
	for _, m := range hexm {
		for _, frac := range []int{0, 1, len(m)} {
			for exp := -1080; exp <= 1030; exp += step {
				check(hexNumeral(m, frac, exp), exp%2 == 0)
			}
		}
	}
	// all short numerals over a small alphabet (whatever Parse accepts)
	alpha := "0159.e-"
	var rec func(s string)
	maxLen := 5
	if h.Thorough() {
		maxLen = 6
	}
	rec = func(s string) {
		if len(s) > 0 {
			if idx, run := h.NextN(); run {
				if r, ok := ratOf(s); ok {
					checkNumeral(h, hx.CaseID(idx), s, r)
				} else {
					h.Eval(1)
					h.Count("short_numerals_outside_oracle_grammar", 1)
				}
			}
		}
		if len(s) == maxLen {
			return
		}
		for i := 0; i < len(alpha); i++ {
			rec(s + alpha[i:i+1])
		}
	}
	rec("")
}

// ratOf parses the plain grammar [-]digits[.digits][e[-]digits] exactly.
func ratOf(s string) (*big.Rat, bool) {
	t := s
	neg := strings.HasPrefix(t, "-")
	t = strings.TrimPrefix(t, "-")
	mant, exps, hasE := strings.Cut(t, "e")
	if hasE && (exps == "" || exps == "-") {
		return nil, false
	}
	ip, fp, _ := strings.Cut(mant, ".")
	if ip == "" && fp == "" {
		return nil, false
	}
	for _, c := range ip + fp {
		if c < '0' || c > '9' {
			return nil, false
		}
	}
	e := 0
	if hasE {
		v, err := strconv.Atoi(exps)
		if err != nil {
			return nil, false
		}
		e = v
	}
	if strings.Count(mant, ".") > 1 {
		return nil, false
	}
	n, ok := new(big.Int).SetString("0"+ip+fp, 10)
	if !ok {
		return nil, false
	}
	r := new(big.Rat).SetInt(n)
	e -= len(fp)
	p := new(big.Rat).SetInt(new(big.Int).Exp(big.NewInt(10), big.NewInt(int64(abs(e))), nil))
	if e >= 0 {
		r.Mul(r, p)
	} else {
		r.Quo(r, p)
	}
	if neg {
		r.Neg(r)
	}
	return r, true
}

func checkNumeral(h *hx.H, id, text string, val *big.Rat) {
	h.Eval(1)
	h.State(1)
	h.Trans(1)
	d, err := new(decimal.Decimal).Parse(text)
	if err != nil {
		h.Count("rejected_by_Parse", 1)
		return
	}
	h.Trace(1)
	want, wantExact := val.Float64()
	neg := val.Sign() < 0 || (val.Sign() == 0 && strings.HasPrefix(text, "-"))
	if val.Sign() == 0 && neg {
		want = math.Copysign(0, -1)
	}
	if !wantExact {
		h.NonTrivial++
	}
	// oracle self-check against the standard library parser where it accepts the spelling
	if pf, perr := strconv.ParseFloat(text, 64); perr == nil || math.IsInf(pf, 0) {
		if pf != want && !(math.IsInf(pf, 0) && math.IsInf(want, 0)) {
			h.Infra = append(h.Infra, fmt.Sprintf("oracle self-check failed for %q: big.Rat %v vs strconv %v", text, want, pf))
			return
		}
	}
	var got float64
	var exact bool
	func() {
		defer func() {
			if p := recover(); p != nil {
				h.Violate("float64-panic", id, fmt.Sprintf("numeral %q: panic %v", text, p), nil)
			}
		}()
		got, exact = d.Float64()
	}()
	if h.WantSample() && !wantExact && len(text) > 12 {
		h.Sample(map[string]any{"case": id, "numeral": text, "float64": got, "exact": exact})
	}
	if math.Float64bits(got) != math.Float64bits(want) {
		sig := "float64-misrounded"
		switch {
		case want != 0 && got == 0:
			sig = "float64-underflow-to-zero"
		case math.Abs(want) < 2.2250738585072014e-308 && want != 0:
			sig = "float64-subnormal-misrounded"
		}
		h.Violate(sig, id, fmt.Sprintf("numeral %q: Float64 = %v (%#x), correctly rounded value is %v (%#x)", text, got, math.Float64bits(got), want, math.Float64bits(want)), nil)
		return
	}
	if exact && !wantExact {
		h.Violate("float64-exact-flag", id, fmt.Sprintf("numeral %q: reported exact but %v was rounded", text, got), nil)
	}
}
