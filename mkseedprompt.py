#!/usr/bin/env python3
"""usage: mkseedprompt.py <prop-id> <worktree> [extra hint]  -> prints the sub-agent prompt (property text only, nothing from /verif)"""
import json, sys
pid, wt = sys.argv[1], sys.argv[2]
hint = sys.argv[3] if len(sys.argv) > 3 else ""
p = None
for l in open('/verif/properties.jsonl'):
    q = json.loads(l)
    if q['id'] == pid:
        p = q
print(f"""You are helping to evaluate a verification harness for the Go project bufbuild/protocompile (a pure-Go Protocol Buffers compiler). Your job is to write ONE realistic, subtle bug ("seeded defect") that breaks a stated semantic property of the code while the code still compiles and the project's existing tests still pass.

Work ONLY inside this scratch git worktree of the repository: {wt}
Do not read or write anything under /verif or /repo (the worktree is a full checkout; everything you need is in it). Do not commit.

The property to break:
  Title: {p['title']}
  Statement: {p['statement']}
  Quantified over: {p['quantifier']['text']}
  Code anchors: {', '.join(p['anchors']['files'])}; mechanisms: {'; '.join(m['name']+' @ '+m['where'] for m in p['anchors']['mechanism'])}

Requirements for the change:
  1. It is a small edit (typically 1-10 lines) to non-test Go source of the project, of the kind a real regression would be: an off-by-one, a dropped or reordered step, a wrong condition, a cache/state slip, a missed case, two sites that each look fine alone. It must NOT be something ordinary use would expose at once (the most common inputs must still work): it should need something specific to manifest - an unusual but legal input shape, a particular combination of features, a multi-step sequence, a particular interleaving, etc. {hint}
  2. The project must still build (`go build ./...`) and the existing tests of the packages you touched, and of packages that depend on them, must still pass, unedited. Run them: `cd {wt} && go test -vet=off -count=1 ./<pkg>/...` (the sandbox is offline; the module cache has everything; note that a few hundred tests that need the `protoc` binary fail even without your change - compare against a run on the unmodified tree and make sure you introduce NO NEW failures; to get the unmodified tree do `git diff > /tmp/seed-{pid}.diff && git checkout -- .`, and `git apply /tmp/seed-{pid}.diff` to bring your change back. NEVER use `git stash`: the stash is shared with other worktrees that other people are using). Also run the root package tests `go test -vet=off -count=1 .` if you touched anything the compiler uses.
  3. Write a demonstration: a Go test file named `zz_seeded_demo_test.go` in a suitable package of the worktree (or a small `main` program under `{wt}/zzdemo/`) that FAILS with your change and PASSES without it, by exercising the public behaviour the property talks about. Verify both directions yourself (save/revert/re-apply your change with git diff / git checkout / git apply as above, keeping the demo file untracked; never `git stash`).
  4. When done, write the change as a unified diff to `{wt}/patch.diff` using `git diff > patch.diff` (the diff must contain ONLY the source change, not the demo file or patch.diff itself), and write `{wt}/SEED_NOTES.md` with: which file/function you changed and why it breaks the property, exactly what is needed for it to manifest, the commands you ran and their results (tests with/without, demo with/without).

Reply with a short summary: the changed file and function, what triggers the defect, the path of the demo, and whether all verifications succeeded.""")
