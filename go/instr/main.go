// Command instr rewrites the synchronisation operations of Go source files so
// that they call the coop scheduler shims (DESIGN.md §2.2). It is purely
// syntactic (go/parser, go/ast, go/printer) and refuses constructs it cannot
// model with a file:line error instead of leaving a silent gap.
//
// usage: instr -out DIR [-watch f1,f2,...] [-sema PKGPATH] file.go...
// Every input file is written to DIR/<index>_<base>.go; a JSON map
// {input: output} is printed on stdout.
package main

import (
	"bytes"
	"encoding/json"
	"flag"
	"fmt"
	"go/ast"
	"go/parser"
	"go/printer"
	"go/token"
	"os"
	"path/filepath"
	"strconv"
	"strings"
)

const zz = "github.com/bufbuild/protocompile/internal/zzverif/"

var (
	outDir  = flag.String("out", "", "output directory")
	watch   = flag.String("watch", "", "comma separated struct field names to watch for data races")
	pkgName = flag.String("pkg", "", "if set, rewrite the package clause (used for the semaphore copy)")
	watchIn = flag.String("watchfiles", "", "comma separated base names of the files in which watched fields are instrumented (default: all)")
)

type rewriter struct {
	fset     *token.FileSet
	file     *ast.File
	path     string
	needCoop bool
	errs     []string
	watched  map[string]bool
	gosched  bool
}

func main() {
	flag.Parse()
	w := map[string]bool{}
	for _, f := range strings.Split(*watch, ",") {
		if f != "" {
			w[f] = true
		}
	}
	res := map[string]string{}
	for i, in := range flag.Args() {
		out := filepath.Join(*outDir, fmt.Sprintf("%03d_%s", i, filepath.Base(in)))
		wf := w
		if *watchIn != "" && !strings.Contains(","+*watchIn+",", ","+filepath.Base(in)+",") {
			wf = nil
		}
		if err := rewriteFile(in, out, wf); err != nil {
			fmt.Fprintln(os.Stderr, err)
			os.Exit(1)
		}
		res[in] = out
	}
	json.NewEncoder(os.Stdout).Encode(res)
}

func rewriteFile(in, out string, watched map[string]bool) error {
	fset := token.NewFileSet()
	f, err := parser.ParseFile(fset, in, nil, parser.ParseComments)
	if err != nil {
		return err
	}
	r := &rewriter{fset: fset, file: f, path: in, watched: watched}
	r.imports()
	for _, d := range f.Decls {
		if fd, ok := d.(*ast.FuncDecl); ok && fd.Body != nil {
			r.block(fd.Body)
		} else if gd, ok := d.(*ast.GenDecl); ok {
			for _, sp := range gd.Specs {
				if vs, ok := sp.(*ast.ValueSpec); ok {
					for i := range vs.Values {
						vs.Values[i] = r.expr(vs.Values[i])
					}
				}
			}
		}
	}
	if len(r.errs) > 0 {
		return fmt.Errorf("instr: unsupported constructs:\n  %s", strings.Join(r.errs, "\n  "))
	}
	if *pkgName != "" {
		f.Name.Name = *pkgName
	}
	if r.needCoop {
		addImport(f, "zzcoop", zz+"coop")
	}
	if r.gosched {
		// keep the runtime import used
		f.Decls = append(f.Decls, &ast.GenDecl{Tok: token.VAR, Specs: []ast.Spec{&ast.ValueSpec{
			Names: []*ast.Ident{ast.NewIdent("_")}, Values: []ast.Expr{&ast.SelectorExpr{X: ast.NewIdent("runtime"), Sel: ast.NewIdent("NumCPU")}}}}})
	}
	var buf bytes.Buffer
	// drop comments attached by position to avoid misplacement after rewriting
	f.Comments = filterDirectives(f.Comments)
	if err := (&printer.Config{Mode: printer.UseSpaces | printer.TabIndent, Tabwidth: 8}).Fprint(&buf, fset, f); err != nil {
		return err
	}
	return os.WriteFile(out, buf.Bytes(), 0o644)
}

func filterDirectives(cgs []*ast.CommentGroup) []*ast.CommentGroup {
	var out []*ast.CommentGroup
	for _, cg := range cgs {
		for _, c := range cg.List {
			if strings.HasPrefix(c.Text, "//go:") {
				out = append(out, cg)
				break
			}
		}
	}
	return out
}

func (r *rewriter) errf(n ast.Node, format string, args ...any) {
	p := r.fset.Position(n.Pos())
	r.errs = append(r.errs, fmt.Sprintf("%s:%d: %s", p.Filename, p.Line, fmt.Sprintf(format, args...)))
}

func (r *rewriter) site(n ast.Node) string {
	p := r.fset.Position(n.Pos())
	return fmt.Sprintf("%s:%d", filepath.Base(p.Filename), p.Line)
}

func addImport(f *ast.File, name, path string) {
	spec := &ast.ImportSpec{Name: ast.NewIdent(name), Path: &ast.BasicLit{Kind: token.STRING, Value: strconv.Quote(path)}}
	for _, d := range f.Decls {
		if gd, ok := d.(*ast.GenDecl); ok && gd.Tok == token.IMPORT {
			gd.Specs = append(gd.Specs, spec)
			if !gd.Lparen.IsValid() {
				gd.Lparen = gd.Pos()
				gd.Rparen = gd.End()
			}
			return
		}
	}
	f.Decls = append([]ast.Decl{&ast.GenDecl{Tok: token.IMPORT, Specs: []ast.Spec{spec}}}, f.Decls...)
}

func (r *rewriter) imports() {
	repl := map[string][2]string{
		"sync":                         {"sync", zz + "vsync"},
		"sync/atomic":                  {"atomic", zz + "vatomic"},
		"golang.org/x/sync/semaphore": {"semaphore", zz + "vsemaphore"},
	}
	for _, im := range r.file.Imports {
		p, _ := strconv.Unquote(im.Path.Value)
		if rp, ok := repl[p]; ok {
			if im.Name == nil {
				im.Name = ast.NewIdent(rp[0])
			}
			im.Path.Value = strconv.Quote(rp[1])
		}
	}
}

func coopCall(fn string, args ...ast.Expr) *ast.CallExpr {
	return &ast.CallExpr{Fun: &ast.SelectorExpr{X: ast.NewIdent("zzcoop"), Sel: ast.NewIdent(fn)}, Args: args}
}

func (r *rewriter) block(b *ast.BlockStmt) {
	if b == nil {
		return
	}
	b.List = r.stmts(b.List)
}

func (r *rewriter) stmts(list []ast.Stmt) []ast.Stmt {
	var out []ast.Stmt
	for _, s := range list {
		pre := r.watchesFor(s)
		out = append(out, pre...)
		out = append(out, r.stmt(s))
	}
	return out
}

func (r *rewriter) stmt(s ast.Stmt) ast.Stmt {
	switch s := s.(type) {
	case nil:
		return nil
	case *ast.BlockStmt:
		r.block(s)
	case *ast.GoStmt:
		r.needCoop = true
		call := s.Call
		if fl, ok := call.Fun.(*ast.FuncLit); ok && len(call.Args) == 0 {
			r.block(fl.Body)
			return &ast.ExprStmt{X: coopCall("Go", fl)}
		}
		if len(call.Args) == 0 {
			call.Fun = r.expr(call.Fun)
			return &ast.ExprStmt{X: coopCall("Go", &ast.FuncLit{Type: &ast.FuncType{Params: &ast.FieldList{}}, Body: &ast.BlockStmt{List: []ast.Stmt{&ast.ExprStmt{X: call}}}})}
		}
		r.errf(s, "go statement with arguments")
	case *ast.SendStmt:
		r.needCoop = true
		return &ast.ExprStmt{X: coopCall("Send", r.expr(s.Chan), r.expr(s.Value))}
	case *ast.SelectStmt:
		return r.sel(s)
	case *ast.ExprStmt:
		s.X = r.expr(s.X)
	case *ast.AssignStmt:
		// v, ok := <-c
		if len(s.Lhs) == 2 && len(s.Rhs) == 1 {
			if u, ok := s.Rhs[0].(*ast.UnaryExpr); ok && u.Op == token.ARROW {
				r.needCoop = true
				s.Rhs[0] = coopCall("Recv2", r.expr(u.X))
				for i := range s.Lhs {
					s.Lhs[i] = r.expr(s.Lhs[i])
				}
				return s
			}
		}
		for i := range s.Lhs {
			s.Lhs[i] = r.expr(s.Lhs[i])
		}
		for i := range s.Rhs {
			s.Rhs[i] = r.expr(s.Rhs[i])
		}
	case *ast.IfStmt:
		s.Init = r.stmt(s.Init)
		s.Cond = r.expr(s.Cond)
		r.block(s.Body)
		s.Else = r.stmt(s.Else)
	case *ast.ForStmt:
		s.Init = r.stmt(s.Init)
		if s.Cond != nil {
			s.Cond = r.expr(s.Cond)
		}
		s.Post = r.stmt(s.Post)
		r.block(s.Body)
	case *ast.RangeStmt:
		s.X = r.expr(s.X)
		r.block(s.Body)
	case *ast.SwitchStmt:
		s.Init = r.stmt(s.Init)
		if s.Tag != nil {
			s.Tag = r.expr(s.Tag)
		}
		r.block(s.Body)
	case *ast.TypeSwitchStmt:
		s.Init = r.stmt(s.Init)
		s.Assign = r.stmt(s.Assign)
		r.block(s.Body)
	case *ast.CaseClause:
		for i := range s.List {
			s.List[i] = r.expr(s.List[i])
		}
		s.Body = r.stmts(s.Body)
	case *ast.LabeledStmt:
		s.Stmt = r.stmt(s.Stmt)
	case *ast.ReturnStmt:
		for i := range s.Results {
			s.Results[i] = r.expr(s.Results[i])
		}
	case *ast.DeferStmt:
		s.Call = r.expr(s.Call).(*ast.CallExpr)
	case *ast.DeclStmt:
		if gd, ok := s.Decl.(*ast.GenDecl); ok {
			for _, sp := range gd.Specs {
				if vs, ok := sp.(*ast.ValueSpec); ok {
					for i := range vs.Values {
						vs.Values[i] = r.expr(vs.Values[i])
					}
				}
			}
		}
	case *ast.IncDecStmt:
		s.X = r.expr(s.X)
	case *ast.CommClause:
		r.errf(s, "comm clause outside select")
	}
	return s
}

func (r *rewriter) sel(s *ast.SelectStmt) ast.Stmt {
	r.needCoop = true
	hasDefault := false
	var chans []ast.Expr
	var clauses []ast.Stmt
	idx := 0
	for _, c := range s.Body.List {
		cc := c.(*ast.CommClause)
		body := r.stmts(cc.Body)
		if cc.Comm == nil {
			hasDefault = true
			clauses = append(clauses, &ast.CaseClause{List: nil, Body: body})
			continue
		}
		var recv *ast.UnaryExpr
		switch cm := cc.Comm.(type) {
		case *ast.ExprStmt:
			if u, ok := cm.X.(*ast.UnaryExpr); ok && u.Op == token.ARROW {
				recv = u
			}
		case *ast.AssignStmt:
			if len(cm.Rhs) == 1 {
				if u, ok := cm.Rhs[0].(*ast.UnaryExpr); ok && u.Op == token.ARROW {
					recv = u
				}
			}
		}
		if recv == nil {
			r.errf(cc, "select arm that is not a receive")
			continue
		}
		if hasCall(recv.X) && !pureDone(recv.X) {
			r.errf(cc, "select arm channel expression with side effects")
		}
		chans = append(chans, recv.X)
		// the arm performs the real receive first (cannot block, see coop.Select)
		nb := append([]ast.Stmt{cc.Comm}, body...)
		// silence "declared and not used" for `case v := <-c` with unused v is impossible in valid Go
		clauses = append(clauses, &ast.CaseClause{List: []ast.Expr{&ast.BasicLit{Kind: token.INT, Value: strconv.Itoa(idx)}}, Body: nb})
		idx++
	}
	def := ast.NewIdent("false")
	if hasDefault {
		def = ast.NewIdent("true")
	} else {
		// keeps the statement terminating when every arm is
		clauses = append(clauses, &ast.CaseClause{Body: []ast.Stmt{&ast.ExprStmt{X: &ast.CallExpr{Fun: ast.NewIdent("panic"), Args: []ast.Expr{&ast.BasicLit{Kind: token.STRING, Value: `"zzcoop: select returned no arm"`}}}}}})
	}
	args := append([]ast.Expr{def}, chans...)
	return &ast.SwitchStmt{Tag: coopCall("Select", args...), Body: &ast.BlockStmt{List: clauses}}
}

// pureDone accepts x.Done() style calls (context.Context.Done is pure).
func pureDone(e ast.Expr) bool {
	c, ok := e.(*ast.CallExpr)
	if !ok || len(c.Args) != 0 {
		return false
	}
	se, ok := c.Fun.(*ast.SelectorExpr)
	return ok && se.Sel.Name == "Done" && !hasCall(se.X)
}

func hasCall(e ast.Expr) bool {
	found := false
	ast.Inspect(e, func(n ast.Node) bool {
		if _, ok := n.(*ast.CallExpr); ok {
			found = true
		}
		return !found
	})
	return found
}

func (r *rewriter) expr(e ast.Expr) ast.Expr {
	switch e := e.(type) {
	case nil:
		return nil
	case *ast.UnaryExpr:
		e.X = r.expr(e.X)
		if e.Op == token.ARROW {
			r.needCoop = true
			return coopCall("Recv", e.X)
		}
	case *ast.CallExpr:
		for i := range e.Args {
			e.Args[i] = r.expr(e.Args[i])
		}
		if id, ok := e.Fun.(*ast.Ident); ok && id.Name == "close" && len(e.Args) == 1 {
			r.needCoop = true
			return coopCall("Close", e.Args[0])
		}
		if se, ok := e.Fun.(*ast.SelectorExpr); ok {
			if id, ok := se.X.(*ast.Ident); ok && id.Name == "runtime" && se.Sel.Name == "Gosched" {
				r.needCoop = true
				r.gosched = true
				return coopCall("Yield")
			}
		}
		e.Fun = r.expr(e.Fun)
	case *ast.FuncLit:
		r.block(e.Body)
	case *ast.ParenExpr:
		e.X = r.expr(e.X)
	case *ast.SelectorExpr:
		e.X = r.expr(e.X)
	case *ast.IndexExpr:
		e.X = r.expr(e.X)
		e.Index = r.expr(e.Index)
	case *ast.SliceExpr:
		e.X = r.expr(e.X)
		e.Low, e.High, e.Max = r.expr(e.Low), r.expr(e.High), r.expr(e.Max)
	case *ast.StarExpr:
		e.X = r.expr(e.X)
	case *ast.BinaryExpr:
		e.X = r.expr(e.X)
		e.Y = r.expr(e.Y)
	case *ast.KeyValueExpr:
		e.Value = r.expr(e.Value)
	case *ast.CompositeLit:
		for i := range e.Elts {
			e.Elts[i] = r.expr(e.Elts[i])
		}
	case *ast.TypeAssertExpr:
		e.X = r.expr(e.X)
	}
	return e
}

// ---- watched fields ----

// watchesFor returns coop.Watch calls to run before statement s for every
// selector X.f in s (outside nested blocks and function literals) whose field
// name is on the watch list and whose X is free of calls.
func (r *rewriter) watchesFor(s ast.Stmt) []ast.Stmt {
	if len(r.watched) == 0 {
		return nil
	}
	type acc struct {
		e     ast.Expr
		write bool
	}
	var accs []acc
	seen := map[string]int{}
	add := func(e ast.Expr, write bool) {
		k := exprString(r.fset, e)
		if i, ok := seen[k]; ok {
			if write {
				accs[i].write = true
			}
			return
		}
		seen[k] = len(accs)
		accs = append(accs, acc{e, write})
	}
	var scan func(n ast.Node, write bool)
	isWatched := func(e ast.Expr) (ast.Expr, bool) {
		se, ok := e.(*ast.SelectorExpr)
		if !ok || !r.watched[se.Sel.Name] || hasCall(se.X) {
			return nil, false
		}
		return se, true
	}
	scanExpr := func(e ast.Expr) {
		ast.Inspect(e, func(n ast.Node) bool {
			switch n := n.(type) {
			case *ast.FuncLit:
				return false
			case *ast.SelectorExpr:
				if w, ok := isWatched(n); ok {
					add(w, false)
				}
			}
			return true
		})
	}
	lhs := func(e ast.Expr) {
		// writes: X.f = ..., X.f[k] = ..., X.f++ ; the base is also read for index forms
		switch t := e.(type) {
		case *ast.IndexExpr:
			if w, ok := isWatched(t.X); ok {
				add(w, true)
			} else {
				scanExpr(t.X)
			}
			scanExpr(t.Index)
		default:
			if w, ok := isWatched(e); ok {
				add(w, true)
			} else {
				scanExpr(e)
			}
		}
	}
	scan = func(n ast.Node, write bool) {}
	_ = scan
	switch s := s.(type) {
	case *ast.AssignStmt:
		for _, l := range s.Lhs {
			if s.Tok == token.DEFINE {
				continue
			}
			lhs(l)
		}
		for _, x := range s.Rhs {
			scanExpr(x)
		}
	case *ast.IncDecStmt:
		lhs(s.X)
	case *ast.ExprStmt:
		if c, ok := s.X.(*ast.CallExpr); ok {
			if id, ok := c.Fun.(*ast.Ident); ok && id.Name == "delete" && len(c.Args) == 2 {
				if w, ok := isWatched(c.Args[0]); ok {
					add(w, true)
				}
				scanExpr(c.Args[1])
				break
			}
		}
		scanExpr(s.X)
	case *ast.ReturnStmt:
		for _, x := range s.Results {
			scanExpr(x)
		}
	case *ast.IfStmt:
		if s.Init != nil {
			return r.prependInit(s, r.watchesFor(s.Init))
		}
		scanExpr(s.Cond)
	case *ast.RangeStmt:
		scanExpr(s.X)
	case *ast.SwitchStmt:
		if s.Init == nil && s.Tag != nil {
			scanExpr(s.Tag)
		}
	case *ast.DeclStmt:
		if gd, ok := s.Decl.(*ast.GenDecl); ok {
			for _, sp := range gd.Specs {
				if vs, ok := sp.(*ast.ValueSpec); ok {
					for _, v := range vs.Values {
						scanExpr(v)
					}
				}
			}
		}
	case *ast.DeferStmt, *ast.GoStmt:
		// arguments are evaluated here; closures run later and are handled in their bodies
	}
	var out []ast.Stmt
	for _, a := range accs {
		r.needCoop = true
		w := ast.NewIdent("false")
		if a.write {
			w = ast.NewIdent("true")
		}
		out = append(out, &ast.ExprStmt{X: coopCall("Watch",
			&ast.UnaryExpr{Op: token.AND, X: cloneExpr(r.fset, a.e)}, w,
			&ast.BasicLit{Kind: token.STRING, Value: strconv.Quote(r.site(s))})})
	}
	return out
}

// prependInit handles `if init; cond {}`: watches for init go before the if;
// watches for cond cannot be placed (cond may use variables defined by init), so
// the condition's accesses are recorded at the top of both branches instead.
func (r *rewriter) prependInit(s *ast.IfStmt, pre []ast.Stmt) []ast.Stmt {
	condW := r.watchesFor(&ast.ExprStmt{X: s.Cond})
	if len(condW) > 0 {
		s.Body.List = append(condW, s.Body.List...)
	}
	return pre
}

func exprString(fset *token.FileSet, e ast.Expr) string {
	var b bytes.Buffer
	printer.Fprint(&b, fset, e)
	return b.String()
}

func cloneExpr(fset *token.FileSet, e ast.Expr) ast.Expr {
	x, err := parser.ParseExpr(exprString(fset, e))
	if err != nil {
		panic(err)
	}
	return x
}
