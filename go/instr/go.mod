module verifinstr

go 1.23
