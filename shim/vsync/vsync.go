// Package vsync has the same method sets as package sync for the types the
// code under test uses; every blocking operation is a scheduling point of the
// coop scheduler. With no scheduler active the types fall back to the real
// primitives, so package initialisation and harness set-up code work unchanged.
package vsync

import (
	"sync"

	"github.com/bufbuild/protocompile/internal/zzverif/coop"
)

type Locker = sync.Locker

// OnceValue, OnceFunc etc. are not used by instrumented packages; Pool is
// passed through.
type Pool = sync.Pool

type Mutex struct {
	real   sync.Mutex
	locked bool
	hb     coop.Sync
}

func (m *Mutex) Lock() {
	if !coop.Active() {
		m.real.Lock()
		return
	}
	coop.Point("Mutex.Lock", func() bool { return !m.locked })
	m.locked = true
	coop.Touch(&m.hb, 1, 0)
	coop.Acquire(&m.hb)
}

func (m *Mutex) TryLock() bool {
	if !coop.Active() {
		return m.real.TryLock()
	}
	coop.Point("Mutex.TryLock", nil)
	if m.locked {
		coop.Touch(&m.hb, 2, 0)
		return false
	}
	m.locked = true
	coop.Touch(&m.hb, 2, 1)
	coop.Acquire(&m.hb)
	return true
}

func (m *Mutex) Unlock() {
	if !coop.Active() {
		m.real.Unlock()
		return
	}
	if !m.locked {
		panic("sync: unlock of unlocked mutex")
	}
	coop.Release(&m.hb)
	m.locked = false
}

type RWMutex struct {
	real    sync.RWMutex
	writer  bool
	readers int
	hbW     coop.Sync // released by writers, acquired by everyone
	hbR     coop.Sync // released by readers, acquired by writers
}

func (m *RWMutex) Lock() {
	if !coop.Active() {
		m.real.Lock()
		return
	}
	coop.Point("RWMutex.Lock", func() bool { return !m.writer && m.readers == 0 })
	m.writer = true
	coop.Touch(&m.hbW, 3, 0)
	coop.Acquire(&m.hbW)
	coop.Acquire(&m.hbR)
}

func (m *RWMutex) Unlock() {
	if !coop.Active() {
		m.real.Unlock()
		return
	}
	if !m.writer {
		panic("sync: Unlock of unlocked RWMutex")
	}
	coop.Release(&m.hbW)
	m.writer = false
}

// RLock does not model writer preference: a reader that slips in while a
// writer waits is indistinguishable from the writer calling Lock later, so
// every outcome explored is a real one.
func (m *RWMutex) RLock() {
	if !coop.Active() {
		m.real.RLock()
		return
	}
	coop.Point("RWMutex.RLock", func() bool { return !m.writer })
	m.readers++
	coop.Touch(&m.hbW, 4, 0)
	coop.Acquire(&m.hbW)
}

func (m *RWMutex) RUnlock() {
	if !coop.Active() {
		m.real.RUnlock()
		return
	}
	if m.readers <= 0 {
		panic("sync: RUnlock of unlocked RWMutex")
	}
	coop.Release(&m.hbR)
	m.readers--
}

func (m *RWMutex) RLocker() Locker { return (*rlocker)(m) }

type rlocker RWMutex

func (r *rlocker) Lock()   { (*RWMutex)(r).RLock() }
func (r *rlocker) Unlock() { (*RWMutex)(r).RUnlock() }

type Once struct {
	real    sync.Once
	done    bool
	running bool
	hb      coop.Sync
}

func (o *Once) Do(f func()) {
	if !coop.Active() {
		if o.done {
			return
		}
		o.real.Do(func() {
			defer func() { o.done = true }()
			f()
		})
		return
	}
	coop.Point("Once.Do", func() bool { return !o.running })
	if o.done {
		coop.Touch(&o.hb, 5, 1)
		coop.Acquire(&o.hb)
		return
	}
	coop.Touch(&o.hb, 5, 0)
	o.running = true
	defer func() {
		o.done = true
		o.running = false
		coop.Release(&o.hb)
	}()
	f()
}

type WaitGroup struct {
	real sync.WaitGroup
	n    int
	hb   coop.Sync
}

func (w *WaitGroup) Add(d int) {
	if !coop.Active() {
		w.real.Add(d)
		return
	}
	if d < 0 {
		coop.Release(&w.hb)
	}
	w.n += d
	if w.n < 0 {
		panic("sync: negative WaitGroup counter")
	}
}

func (w *WaitGroup) Done() { w.Add(-1) }

func (w *WaitGroup) Go(f func()) {
	w.Add(1)
	coop.Go(func() {
		defer w.Done()
		f()
	})
}

func (w *WaitGroup) Wait() {
	if !coop.Active() {
		w.real.Wait()
		return
	}
	coop.Point("WaitGroup.Wait", func() bool { return w.n == 0 })
	coop.Touch(&w.hb, 6, 0)
	coop.Acquire(&w.hb)
}

// Map is an insertion-ordered stand-in for sync.Map. Range visits a snapshot of
// the keys in insertion order and re-reads every value, with a scheduling point
// before each visit (a legal sync.Map behaviour).
type Map struct {
	mu   sync.Mutex // only for use without a scheduler
	m    map[any]*entry
	keys []any
	hb   coop.Sync
}

type entry struct {
	v       any
	deleted bool
}

func (m *Map) enter(what string) func() {
	if !coop.Active() {
		m.mu.Lock()
		return m.mu.Unlock
	}
	coop.Point(what, nil)
	coop.Acquire(&m.hb)
	return func() {}
}

func (m *Map) wrote(op uint64) {
	if coop.Active() {
		coop.Touch(&m.hb, op, 0)
		coop.Release(&m.hb)
	}
}

func (m *Map) read(op uint64, found bool) {
	if coop.Active() {
		o := uint64(0)
		if found {
			o = 1
		}
		coop.Touch(&m.hb, op, o)
	}
}

func (m *Map) get(k any) (*entry, bool) {
	e, ok := m.m[k]
	if !ok || e.deleted {
		return nil, false
	}
	return e, true
}

func (m *Map) put(k, v any) {
	if m.m == nil {
		m.m = map[any]*entry{}
	}
	if e, ok := m.m[k]; ok && !e.deleted {
		e.v = v
		return
	}
	m.m[k] = &entry{v: v}
	m.keys = append(m.keys, k)
}

func (m *Map) del(k any) {
	if e, ok := m.m[k]; ok && !e.deleted {
		e.deleted = true
		delete(m.m, k)
		for i, kk := range m.keys {
			if kk == k {
				m.keys = append(m.keys[:i:i], m.keys[i+1:]...)
				break
			}
		}
	}
}

func (m *Map) Load(k any) (any, bool) {
	defer m.enter("Map.Load")()
	e, ok := m.get(k)
	m.read(20, ok)
	if !ok {
		return nil, false
	}
	return e.v, true
}

func (m *Map) Store(k, v any) {
	defer m.enter("Map.Store")()
	m.put(k, v)
	m.wrote(21)
}

func (m *Map) LoadOrStore(k, v any) (any, bool) {
	defer m.enter("Map.LoadOrStore")()
	if e, ok := m.get(k); ok {
		m.read(22, true)
		return e.v, true
	}
	m.put(k, v)
	m.wrote(23)
	return v, false
}

func (m *Map) LoadAndDelete(k any) (any, bool) {
	defer m.enter("Map.LoadAndDelete")()
	e, ok := m.get(k)
	if !ok {
		m.read(24, false)
		return nil, false
	}
	v := e.v
	m.del(k)
	m.wrote(25)
	return v, true
}

func (m *Map) Delete(k any) { m.LoadAndDelete(k) }

func (m *Map) Swap(k, v any) (any, bool) {
	defer m.enter("Map.Swap")()
	e, ok := m.get(k)
	var prev any
	if ok {
		prev = e.v
	}
	m.put(k, v)
	m.wrote(26)
	return prev, ok
}

func (m *Map) CompareAndSwap(k, old, new any) bool {
	defer m.enter("Map.CompareAndSwap")()
	e, ok := m.get(k)
	if !ok || e.v != old {
		m.read(27, false)
		return false
	}
	e.v = new
	m.wrote(28)
	return true
}

func (m *Map) CompareAndDelete(k, old any) bool {
	defer m.enter("Map.CompareAndDelete")()
	e, ok := m.get(k)
	if !ok || e.v != old {
		m.read(29, false)
		return false
	}
	m.del(k)
	m.wrote(30)
	return true
}

func (m *Map) Clear() {
	defer m.enter("Map.Clear")()
	for _, k := range append([]any(nil), m.keys...) {
		m.del(k)
	}
	m.wrote(31)
}

func (m *Map) Range(f func(k, v any) bool) {
	if !coop.Active() {
		m.mu.Lock()
		keys := append([]any(nil), m.keys...)
		m.mu.Unlock()
		for _, k := range keys {
			m.mu.Lock()
			e, ok := m.get(k)
			var v any
			if ok {
				v = e.v
			}
			m.mu.Unlock()
			if ok && !f(k, v) {
				return
			}
		}
		return
	}
	coop.Point("Map.Range", nil)
	coop.Acquire(&m.hb)
	coop.Touch(&m.hb, 32, uint64(len(m.keys)))
	keys := append([]any(nil), m.keys...)
	// sync.Map.Range visits the entries in no particular order: with RangeOrderChoice the explorer
	// also runs the reverse of the insertion order (one "order" deviation)
	if RangeOrderChoice && len(keys) > 1 && coop.OrderChoice(2) == 1 {
		for i, j := 0, len(keys)-1; i < j; i, j = i+1, j-1 {
			keys[i], keys[j] = keys[j], keys[i]
		}
	}
	for i, k := range keys {
		if i > 0 && FineRange {
			coop.Point("Map.Range.next", nil)
			coop.Acquire(&m.hb)
		}
		e, ok := m.get(k)
		coop.Touch(&m.hb, 33, uint64(i))
		if !ok {
			continue
		}
		if !f(k, e.v) {
			return
		}
	}
}

// RangeOrderChoice makes the visiting order of Map.Range an explorer choice (insertion order or
// its reverse). Set by harnesses whose property depends on results that are gathered by a Range.
var RangeOrderChoice = false

// FineRange adds a scheduling point before every element a Range visits.
var FineRange = true
