package model

import (
	"strings"
)

type Kind int

const (
	KNone Kind = iota
	KPackage
	KMessage
	KEnum
	KEnumValue
	KField
	KExtension
	KOneof
	KService
	KMethod
)

func (k Kind) String() string {
	return [...]string{"none", "package", "message", "enum", "enum value", "field", "extension", "oneof", "service", "method"}[k]
}

func (k Kind) aggregate() bool {
	return k == KPackage || k == KMessage || k == KEnum || k == KService
}
func (k Kind) isType() bool { return k == KMessage || k == KEnum }

type Sym struct {
	Name string
	Kind Kind
	File string
	Node any // *Msg, *Enum, *Field, ...
}

// Table is the pool of all symbols of a workspace.
type Table struct {
	ws   *WS
	Syms map[string][]Sym // more than one entry = duplicate definitions
	// Dups lists names defined more than once (any two definitions, in any files).
	Dups []string
}

func qual(scope, name string) string {
	if scope == "" {
		return name
	}
	return scope + "." + name
}

func lowerFirstAll(s string) string { return strings.ToLower(s) }

// MapEntryName is protoc's name for the synthetic entry message of a map field.
func MapEntryName(field string) string {
	var b strings.Builder
	up := true
	for i := 0; i < len(field); i++ {
		c := field[i]
		if c == '_' {
			up = true
			continue
		}
		if up && c >= 'a' && c <= 'z' {
			c -= 'a' - 'A'
		}
		up = false
		b.WriteByte(c)
	}
	return b.String() + "Entry"
}

// JSONName is protoc's ToJsonName.
func JSONName(field string) string {
	var b strings.Builder
	up := false
	for i := 0; i < len(field); i++ {
		c := field[i]
		if c == '_' {
			up = true
			continue
		}
		if up && c >= 'a' && c <= 'z' {
			c -= 'a' - 'A'
		}
		up = false
		b.WriteByte(c)
	}
	return b.String()
}

func NewTable(ws *WS) *Table {
	t := &Table{ws: ws, Syms: map[string][]Sym{}}
	add := func(name string, k Kind, file string, node any) {
		if k == KPackage {
			for _, s := range t.Syms[name] {
				if s.Kind == KPackage {
					return
				}
			}
		}
		t.Syms[name] = append(t.Syms[name], Sym{name, k, file, node})
	}
	for _, fl := range ws.Files {
		if fl.Package != "" {
			parts := strings.Split(fl.Package, ".")
			for i := range parts {
				add(strings.Join(parts[:i+1], "."), KPackage, fl.Name, nil)
			}
		}
		var addMsg func(scope string, m *Msg)
		var addEnum func(scope string, e *Enum)
		var addField func(scope string, fd *Field, ext bool)
		addEnum = func(scope string, e *Enum) {
			add(qual(scope, e.Name), KEnum, fl.Name, e)
			for _, x := range e.Body {
				if v, ok := x.(*EnumVal); ok {
					add(qual(scope, v.Name), KEnumValue, fl.Name, v)
				}
			}
		}
		addField = func(scope string, fd *Field, ext bool) {
			k := KField
			if ext {
				k = KExtension
			}
			switch {
			case fd.Group != nil:
				add(qual(scope, lowerFirstAll(fd.Group.Name)), k, fl.Name, fd)
				addMsg(scope, fd.Group)
			case fd.Map != nil:
				add(qual(scope, fd.Name), k, fl.Name, fd)
				en := qual(scope, MapEntryName(fd.Name))
				add(en, KMessage, fl.Name, fd)
				add(en+".key", KField, fl.Name, nil)
				add(en+".value", KField, fl.Name, nil)
			default:
				add(qual(scope, fd.Name), k, fl.Name, fd)
			}
		}
		addMsg = func(scope string, m *Msg) {
			full := qual(scope, m.Name)
			add(full, KMessage, fl.Name, m)
			for _, x := range m.Body {
				switch x := x.(type) {
				case *Field:
					addField(full, x, false)
					if fl.Syntax == "proto3" && x.Label == "optional" {
						add(qual(full, SyntheticOneofNames(m)[x]), KOneof, fl.Name, x)
					}
				case *Oneof:
					add(qual(full, x.Name), KOneof, fl.Name, x)
					for _, fd := range x.Fields {
						addField(full, fd, false)
					}
				case *Msg:
					addMsg(full, x)
				case *Enum:
					addEnum(full, x)
				case *ExtBlock:
					for _, fd := range x.Fields {
						addField(full, fd, true)
					}
				}
			}
		}
		for _, d := range fl.Decls {
			switch d := d.(type) {
			case *Msg:
				addMsg(fl.Package, d)
			case *Enum:
				addEnum(fl.Package, d)
			case *ExtBlock:
				for _, fd := range d.Fields {
					addField(fl.Package, fd, true)
				}
			case *Svc:
				full := qual(fl.Package, d.Name)
				add(full, KService, fl.Name, d)
				for _, m := range d.Methods {
					add(qual(full, m.Name), KMethod, fl.Name, m)
				}
			}
		}
	}
	for name, ss := range t.Syms {
		if len(ss) > 1 {
			t.Dups = append(t.Dups, name)
		}
	}
	return t
}

// Visible returns the files whose symbols file sees: itself, its direct imports and
// everything reachable from those through public imports. ok is false if an import is missing.
func (t *Table) Visible(file string) (vis map[string]bool, ok bool) {
	vis = map[string]bool{file: true}
	ok = true
	fl := t.ws.File(file)
	if fl == nil {
		return vis, false
	}
	var pub func(name string)
	pub = func(name string) {
		g := t.ws.File(name)
		if g == nil {
			return
		}
		for _, im := range g.Imports {
			if im.Kind == "public" && !vis[im.Path] {
				if t.ws.File(im.Path) == nil && !IsStdImport(im.Path) {
					continue
				}
				vis[im.Path] = true
				pub(im.Path)
			}
		}
	}
	for _, im := range fl.Imports {
		if t.ws.File(im.Path) == nil && !IsStdImport(im.Path) {
			ok = false
			continue
		}
		vis[im.Path] = true
	}
	for _, im := range fl.Imports {
		pub(im.Path)
	}
	return vis, ok
}

func IsStdImport(p string) bool { return strings.HasPrefix(p, "google/protobuf/") }

// find is protoc's FindSymbol as seen from a file: the symbol must be defined in a visible
// file; a package is visible if some visible file's package has it as a prefix.
func (t *Table) find(name string, vis map[string]bool) (Sym, bool) {
	for _, s := range t.Syms[name] {
		if s.Kind == KPackage {
			for _, fl := range t.ws.Files {
				if vis[fl.Name] && (fl.Package == name || strings.HasPrefix(fl.Package, name+".")) {
					return s, true
				}
			}
			continue
		}
		if vis[s.File] {
			return s, true
		}
	}
	return Sym{}, false
}

// Lookup is protoc's DescriptorBuilder::LookupSymbolNoPlaceholder (Appendix B). relativeTo is
// the full name of the element that holds the reference (a field, an extension, a method);
// typesOnly is the LOOKUP_TYPES mode used for field types.
func (t *Table) Lookup(file, name, relativeTo string, typesOnly bool) (Sym, bool) {
	vis, _ := t.Visible(file)
	if strings.HasPrefix(name, ".") {
		return t.find(name[1:], vis)
	}
	first := name
	if i := strings.IndexByte(name, '.'); i >= 0 {
		first = name[:i]
	}
	scope := relativeTo
	for {
		i := strings.LastIndexByte(scope, '.')
		if i < 0 {
			return t.find(name, vis)
		}
		scope = scope[:i]
		cand := scope + "." + first
		if s, ok := t.find(cand, vis); ok {
			if len(first) < len(name) {
				if s.Kind.aggregate() {
					return t.find(scope+"."+name, vis)
				}
			} else if !(typesOnly && !s.Kind.isType()) {
				return s, true
			}
		}
	}
}

// SyntheticOneofNames gives the names of the synthetic oneofs of a proto3 message's `optional`
// fields (protoc's Parser::GenerateSyntheticOneofs): `_` is prepended unless the field name
// already starts with one, then `X` as often as needed to avoid the names of the message's fields,
// of its declared oneofs and of the synthetic oneofs made so far.
func SyntheticOneofNames(m *Msg) map[*Field]string {
	names := map[string]bool{}
	var fields []*Field
	fieldName := func(f *Field) string {
		if f.Group != nil {
			return lowerFirstAll(f.Group.Name)
		}
		return f.Name
	}
	for _, d := range m.Body {
		switch d := d.(type) {
		case *Field:
			fields = append(fields, d)
			names[fieldName(d)] = true
		case *Oneof:
			names[d.Name] = true
			for _, f := range d.Fields {
				names[fieldName(f)] = true
			}
		}
	}
	out := map[*Field]string{}
	for _, f := range fields {
		if f.Label != "optional" {
			continue
		}
		name := fieldName(f)
		if !strings.HasPrefix(name, "_") {
			name = "_" + name
		}
		for names[name] {
			name = "X" + name
		}
		names[name] = true
		out[f] = name
	}
	return out
}
