package model

import (
	"fmt"
	"strings"
)

// Dev is one deviation from the base workspace. Two deviations with the same Slot replace the
// same piece of the schema and are never combined.
type Dev struct {
	Name  string
	Slot  string
	Apply func(ws *WS)
}

func rm[T any](s []T, i int) []T { return append(append([]T(nil), s[:i]...), s[i+1:]...) }

func indexOf(body []any, x any) int {
	for i, d := range body {
		if d == x {
			return i
		}
	}
	return -1
}

// Catalogue returns the deviations applicable to the base with the given syntax (Appendix I).
func Catalogue(syntax string) []Dev {
	var out []Dev
	add := func(slot, name string, apply func(ws *WS)) {
		out = append(out, Dev{Name: slot + "=" + name, Slot: slot, Apply: apply})
	}
	M := func(ws *WS) *Msg { return ws.AM }
	F := func(ws *WS, n string) *Field { return ws.AF[int(n[1]-'1')] }
	lab := "optional"
	if syntax != "proto2" {
		lab = ""
	}
	// f1 label
	for _, l := range []string{"optional", "required", "repeated", ""} {
		if l == lab {
			continue
		}
		l := l
		add("f1.label", "'"+l+"'", func(ws *WS) { F(ws, "f1").Label = l })
	}
	if syntax == "proto3" {
		// proto3 optional fields whose synthetic oneof names collide with field names and with each other
		add("f1.label", "optional-underscore-pair", func(ws *WS) {
			F(ws, "f1").Label, F(ws, "f1").Name = "optional", "foo"
			M(ws).Body = append(M(ws).Body, f("optional", "int32", "_foo", 8), f("optional", "int32", "X_foo", 9))
		})
	}
	for _, t := range ScalarNames {
		if t == "int32" {
			continue
		}
		t := t
		add("f1.type", t, func(ws *WS) { F(ws, "f1").Type = t })
	}
	for _, n := range []int64{2, 0, 18999, 19000, 19999, 20000, 536870911, 536870912, 100} {
		n := n
		add("f1.number", fmt.Sprint(n), func(ws *WS) { F(ws, "f1").Number = n })
	}
	for _, n := range []string{"f2", "F2", "f_2", "f_3", "Inner", "ME0", "M", "i", "x1", "_f1", "_f2", "__", "_"} {
		n := n
		add("f1.name", n, func(ws *WS) { F(ws, "f1").Name = n })
	}
	for _, o := range []Option{{"default", "5"}, {"default", "\"x\""}, {"default", "2147483648"}, {"default", "-2147483648"}, {"default", "-2147483649"}, {"default", "0x10"}, {"default", "true"},
		{"json_name", "\"j\""}, {"json_name", "\"f2\""}, {"json_name", "\"[j]\""}, {"json_name", "1"}, {"packed", "true"}, {"packed", "false"}, {"deprecated", "true"}, {"deprecated", "1"}, {"lazy", "true"}, {"ctype", "CORD"}, {"ctype", "NOPE"}} {
		o := o
		add("f1.opts", o.Name+":"+o.Value, func(ws *WS) { F(ws, "f1").Opts = append(F(ws, "f1").Opts, o) })
	}
	add("f1.opts", "targets-twice", func(ws *WS) {
		F(ws, "f1").Opts = append(F(ws, "f1").Opts, Option{"targets", "TARGET_TYPE_FIELD"}, Option{"targets", "TARGET_TYPE_ENUM_ENTRY"})
	})
	add("f1.opts", "targets+deprecated", func(ws *WS) {
		F(ws, "f1").Opts = append(F(ws, "f1").Opts, Option{"deprecated", "true"}, Option{"targets", "TARGET_TYPE_FIELD"})
	})
	add("f1.opts", "deprecated-twice", func(ws *WS) {
		F(ws, "f1").Opts = append(F(ws, "f1").Opts, Option{"deprecated", "true"}, Option{"deprecated", "false"})
	})
	inOneof := func(keepLabel bool) func(ws *WS) {
		return func(ws *WS) {
			m := M(ws)
			fd := ws.AF[0]
			i := indexOf(m.Body, fd)
			if !keepLabel {
				fd.Label = ""
			} else if fd.Label == "" {
				fd.Label = "optional"
			}
			m.Body[i] = &Oneof{Name: "o", Fields: []*Field{fd}}
		}
	}
	add("f1.place", "in-oneof", inOneof(false))
	add("f1.place", "in-oneof-with-label", inOneof(true))
	add("f1.place", "in-oneof-with-f3", func(ws *WS) {
		m := M(ws)
		f1, f3 := ws.AF[0], ws.AF[2]
		f1.Label, f3.Label = "", ""
		i := indexOf(m.Body, f1)
		m.Body[i] = &Oneof{Name: "o", Fields: []*Field{f1, f3}}
		m.Body = rm(m.Body, indexOf(m.Body, f3))
	})
	add("f1.place", "empty-oneof-after", func(ws *WS) { M(ws).Body = append(M(ws).Body, &Oneof{Name: "o"}) })
	add("f1.place", "oneof-named-f2", func(ws *WS) {
		M(ws).Body = append(M(ws).Body, &Oneof{Name: "f2", Fields: []*Field{f("", "int32", "q", 9)}})
	})
	// f2 type spelling
	for _, t := range []string{"b.D", "a.b.D", ".a.b.D", "c.D", "D.N", "N", "M", "Inner", "M.Inner", "c.M.Inner", "P", "a.P", "b.P", "v", "a.b.c.M", ".M", "D.NE", "E", "a", "S", "x1", "D.v", "string", "a.b.c", "ME"} {
		t := t
		add("f2.type", t, func(ws *WS) { F(ws, "f2").Type = t })
	}
	add("f2.opts", "default:1", func(ws *WS) { F(ws, "f2").Opts = []Option{{"default", "1"}} })
	add("f2.opts", "packed", func(ws *WS) { F(ws, "f2").Opts = []Option{{"packed", "true"}} })
	add("f2.label", "repeated", func(ws *WS) { F(ws, "f2").Label = "repeated" })
	// f3 type / default
	for _, t := range []string{"D.NE", "NE", "ME", "PE", "a.PE", "E", "Inner.ME", "M.ME"} {
		t := t
		add("f3.type", t, func(ws *WS) { F(ws, "f3").Type = t })
	}
	dflt := "E1"
	if syntax == "proto3" {
		dflt = "PE0"
	}
	for _, v := range []string{dflt, "NOPE", "1", "\"E1\"", "ME1"} {
		v := v
		add("f3.opts", "default:"+v, func(ws *WS) { F(ws, "f3").Opts = []Option{{"default", v}} })
	}
	add("f3.label", "repeated", func(ws *WS) { F(ws, "f3").Label = "repeated" })
	add("f3.label", "repeated-packed", func(ws *WS) { F(ws, "f3").Label = "repeated"; F(ws, "f3").Opts = []Option{{"packed", "true"}} })
	add("f3.label", "repeated-packed-false", func(ws *WS) { F(ws, "f3").Label = "repeated"; F(ws, "f3").Opts = []Option{{"packed", "false"}} })
	add("f1.label", "repeated-packed-false", func(ws *WS) { F(ws, "f1").Label = "repeated"; F(ws, "f1").Opts = []Option{{"packed", "false"}} })
	// extra map field
	keys := append(append([]string(nil), ScalarNames...), "E", "D", "ME")
	for _, k := range keys {
		k := k
		add("map", "key:"+k, func(ws *WS) { M(ws).Body = append(M(ws).Body, &Field{Name: "m", Number: 4, Map: &[2]string{k, "int32"}}) })
	}
	for _, v := range []string{"D", "E", "ME", "Inner", "string", "Nope", "PE", "b.D", "MEntry"} {
		v := v
		add("map", "value:"+v, func(ws *WS) { M(ws).Body = append(M(ws).Body, &Field{Name: "m", Number: 4, Map: &[2]string{"string", v}}) })
	}
	add("map", "repeated", func(ws *WS) {
		M(ws).Body = append(M(ws).Body, &Field{Label: "repeated", Name: "m", Number: 4, Map: &[2]string{"string", "int32"}})
	})
	add("map", "in-oneof", func(ws *WS) {
		M(ws).Body = append(M(ws).Body, &Oneof{Name: "oo", Fields: []*Field{{Name: "m", Number: 4, Map: &[2]string{"string", "int32"}}, f("", "int32", "q", 9)}})
	})
	add("map", "entry-name-clash", func(ws *WS) {
		M(ws).Body = append(M(ws).Body, &Field{Name: "m", Number: 4, Map: &[2]string{"string", "int32"}}, &Msg{Name: "MEntry"})
	})
	// a repeated scalar field whose name maps to the same entry name, before and after the map
	add("map", "after-repeated-scalar-with-same-entry-name", func(ws *WS) {
		M(ws).Body = append(M(ws).Body, f("repeated", "int32", "M", 8), &Field{Name: "m", Number: 4, Map: &[2]string{"string", "int32"}})
	})
	add("map", "before-repeated-scalar-with-same-entry-name", func(ws *WS) {
		M(ws).Body = append(M(ws).Body, &Field{Name: "m", Number: 4, Map: &[2]string{"string", "int32"}}, f("repeated", "int32", "M", 8))
	})
	add("map", "snake-name", func(ws *WS) {
		M(ws).Body = append(M(ws).Body, &Field{Name: "my_map_2x", Number: 4, Map: &[2]string{"string", "D"}})
	})
	// a oneof that holds a group, placed in front of the other nested types
	if syntax == "proto2" {
		add("group", "in-oneof-before-nested-types", func(ws *WS) {
			og := &Oneof{Name: "grp", Fields: []*Field{{Number: 20, Group: &Msg{Name: "OG", Body: []any{f("optional", "int32", "gi", 1)}}}, f("", "int32", "gq", 21)}}
			M(ws).Body = append([]any{og}, M(ws).Body...)
		})
		add("group", "first-in-M", func(ws *WS) {
			g := &Field{Label: "optional", Number: 20, Group: &Msg{Name: "FG", Body: []any{f("optional", "int32", "gi", 1), f("optional", "int32", "gj", 2)}}}
			M(ws).Body = append([]any{g}, M(ws).Body...)
		})
	}
	// extra group
	add("group", "G", func(ws *WS) {
		M(ws).Body = append(M(ws).Body, &Field{Label: "optional", Number: 5, Group: &Msg{Name: "G", Body: []any{f("optional", "int32", "gi", 1)}}})
	})
	add("group", "lowercase", func(ws *WS) {
		M(ws).Body = append(M(ws).Body, &Field{Label: "optional", Number: 5, Group: &Msg{Name: "g", Body: []any{f("optional", "int32", "gi", 1)}}})
	})
	add("group", "repeated-with-nested-ref", func(ws *WS) {
		M(ws).Body = append(M(ws).Body, &Field{Label: "repeated", Number: 5, Group: &Msg{Name: "Grp", Body: []any{f("optional", "Inner", "gi", 1), f("optional", "Grp", "self", 2)}}})
	})
	// reserved
	res := func(name string, r *Reserved) {
		add("reserved", name, func(ws *WS) { M(ws).Body = append(M(ws).Body, r) })
	}
	res("10", &Reserved{Ranges: [][2]int64{{10, 10}}})
	res("1", &Reserved{Ranges: [][2]int64{{1, 1}}})
	res("10to5", &Reserved{Ranges: [][2]int64{{10, 5}}})
	res("10,10", &Reserved{Ranges: [][2]int64{{10, 10}, {10, 10}}})
	res("10to20,20to30", &Reserved{Ranges: [][2]int64{{10, 20}, {20, 30}}})
	res("10to19,20to30", &Reserved{Ranges: [][2]int64{{10, 19}, {20, 30}}})
	res("10tomax", &Reserved{Ranges: [][2]int64{{10, Max}}})
	res("536870912", &Reserved{Ranges: [][2]int64{{536870912, 536870912}}})
	res("536870911", &Reserved{Ranges: [][2]int64{{536870911, 536870911}}})
	res("name-zz", &Reserved{Names: []string{"zz"}})
	res("name-f1", &Reserved{Names: []string{"f1"}})
	res("name-zz-twice", &Reserved{Names: []string{"zz", "zz"}})
	res("3", &Reserved{Ranges: [][2]int64{{3, 3}}})
	res("2to3", &Reserved{Ranges: [][2]int64{{2, 3}}})
	// extension ranges in M
	er := func(name string, decls ...any) {
		add("extranges", name, func(ws *WS) { M(ws).Body = append(M(ws).Body, decls...) })
	}
	er("100to200", &ExtRange{Ranges: [][2]int64{{100, 200}}})
	er("1to5", &ExtRange{Ranges: [][2]int64{{1, 5}}})
	er("4to5", &ExtRange{Ranges: [][2]int64{{4, 5}}})
	er("100to200+reserved150", &ExtRange{Ranges: [][2]int64{{100, 200}}}, &Reserved{Ranges: [][2]int64{{150, 150}}})
	er("100to200,150to160", &ExtRange{Ranges: [][2]int64{{100, 200}, {150, 160}}})
	er("100to200,201tomax", &ExtRange{Ranges: [][2]int64{{100, 200}, {201, Max}}})
	er("0to5", &ExtRange{Ranges: [][2]int64{{0, 5}}})
	er("19000to19999", &ExtRange{Ranges: [][2]int64{{19000, 19999}}})
	// enum ME
	ME := func(ws *WS) *Enum { return ws.AME }
	en := func(name string, apply func(e *Enum)) { add("ME", name, func(ws *WS) { apply(ME(ws)) }) }
	val := func(e *Enum, i int) *EnumVal { return e.Body[i].(*EnumVal) }
	en("ME1=0", func(e *Enum) { val(e, 1).Number = 0 })
	en("ME1=0+alias", func(e *Enum) { val(e, 1).Number = 0; e.Body = append([]any{&Option{"allow_alias", "true"}}, e.Body...) })
	if syntax == "proto2" {
		// a default that names the second of two aliases (the descriptor records the name as written)
		add("ME", "ME1=0+alias+f3-default-ME1", func(ws *WS) {
			e := ME(ws)
			val(e, 1).Number = 0
			e.Body = append([]any{&Option{"allow_alias", "true"}}, e.Body...)
			F(ws, "f3").Type = "M.ME"
			F(ws, "f3").Opts = append(F(ws, "f3").Opts, Option{"default", "ME1"})
		})
	}
	// allow_alias followed by another option of the enum (options are scanned in order)
	en("ME1=0+alias-then-deprecated", func(e *Enum) {
		val(e, 1).Number = 0
		e.Body = append([]any{&Option{"allow_alias", "true"}, &Option{"deprecated", "true"}}, e.Body...)
	})
	en("ME1=0+deprecated-then-alias", func(e *Enum) {
		val(e, 1).Number = 0
		e.Body = append([]any{&Option{"deprecated", "false"}, &Option{"allow_alias", "true"}}, e.Body...)
	})
	en("alias-alone-then-deprecated", func(e *Enum) {
		e.Body = append([]any{&Option{"allow_alias", "true"}, &Option{"deprecated", "true"}}, e.Body...)
	})
	en("alias-alone", func(e *Enum) { e.Body = append([]any{&Option{"allow_alias", "true"}}, e.Body...) })
	en("alias-false", func(e *Enum) { e.Body = append([]any{&Option{"allow_alias", "false"}}, e.Body...) })
	en("first=1", func(e *Enum) { val(e, 0).Number = 1; val(e, 1).Number = 2 })
	en("2147483648", func(e *Enum) { val(e, 1).Number = 2147483648 })
	en("2147483647", func(e *Enum) { val(e, 1).Number = 2147483647 })
	en("-2147483648", func(e *Enum) { val(e, 1).Number = -2147483648 })
	en("-2147483649", func(e *Enum) { val(e, 1).Number = -2147483649 })
	en("reserved1", func(e *Enum) { e.Body = append(e.Body, &Reserved{Ranges: [][2]int64{{1, 1}}}) })
	en("reserved5", func(e *Enum) { e.Body = append(e.Body, &Reserved{Ranges: [][2]int64{{5, 5}}}) })
	en("reserved-1tomax", func(e *Enum) { e.Body = append(e.Body, &Reserved{Ranges: [][2]int64{{2, Max}}}) })
	en("reserved-name-ME0", func(e *Enum) { e.Body = append(e.Body, &Reserved{Names: []string{"ME0"}}) })
	en("reserved-name-ZZ", func(e *Enum) { e.Body = append(e.Body, &Reserved{Names: []string{"ZZ"}}) })
	en("no-values", func(e *Enum) { e.Body = nil })
	en("value-named-Inner", func(e *Enum) { val(e, 1).Name = "Inner" })
	en("value-named-f1", func(e *Enum) { val(e, 1).Name = "f1" })
	en("same-name-twice", func(e *Enum) { val(e, 1).Name = "ME0" })
	en("deprecated-value", func(e *Enum) { val(e, 1).Opts = []Option{{"deprecated", "true"}} })
	en("deprecated", func(e *Enum) { e.Body = append([]any{&Option{"deprecated", "true"}}, e.Body...) })
	// extension x1
	if syntax != "proto3" {
		X := func(ws *WS) *Field { return ws.AX.Fields[0] }
		for _, n := range []int64{99, 199, 200, 150} {
			n := n
			add("x1.number", fmt.Sprint(n), func(ws *WS) { X(ws).Number = n })
		}
		add("x1.label", "required", func(ws *WS) { X(ws).Label = "required" })
		add("x1.label", "repeated", func(ws *WS) { X(ws).Label = "repeated" })
		for _, e := range []string{"a.b.D", ".a.b.D", "b.D", "E", "M", "Nope", "D.N", "c.D"} {
			e := e
			add("x1.extendee", e, func(ws *WS) { ws.AX.Extendee = e })
		}
		add("x1.more", "second-tag-100", func(ws *WS) {
			ws.AX.Fields = append(ws.AX.Fields, f(lab, "int32", "x2", 100))
		})
		add("x1.more", "second-tag-101", func(ws *WS) {
			ws.AX.Fields = append(ws.AX.Fields, f(lab, "string", "x2", 101))
		})
		add("x1.more", "nested-in-M-tag-100", func(ws *WS) {
			M(ws).Body = append(M(ws).Body, &ExtBlock{Extendee: "D", Fields: []*Field{f(lab, "int32", "x2", 100)}})
		})
		add("x1.more", "nested-in-M-tag-102-typed-Inner", func(ws *WS) {
			M(ws).Body = append(M(ws).Body, &ExtBlock{Extendee: "D", Fields: []*Field{f(lab, "Inner", "x2", 102)}})
		})
		add("x1.more", "nested-in-M-with-options", func(ws *WS) {
			M(ws).Body = append(M(ws).Body, &ExtBlock{Extendee: "D", Fields: []*Field{f(lab, "int32", "x2", 103, Option{"deprecated", "true"}), f(lab, "string", "x3", 104, Option{"deprecated", "false"}, Option{"json_name", "\"x3\""})}})
		})
		add("x1.more", "nested-in-Inner-with-options", func(ws *WS) {
			ws.AInner.Body = append(ws.AInner.Body, &ExtBlock{Extendee: ".a.b.D", Fields: []*Field{f(lab, "int32", "x2", 105, Option{"deprecated", "true"})}})
		})
		add("x1.opts", "deprecated", func(ws *WS) { X(ws).Opts = []Option{{"deprecated", "true"}} })
		add("x1.opts", "json_name", func(ws *WS) { X(ws).Opts = []Option{{"json_name", "\"j\""}} })
		add("x1.opts", "default:7", func(ws *WS) { X(ws).Opts = []Option{{"default", "7"}} })
		add("x1.type", "M", func(ws *WS) { X(ws).Type = "M" })
		add("x1.type", "map", func(ws *WS) { X(ws).Type = ""; X(ws).Map = &[2]string{"string", "int32"} })
	} else {
		add("x1.more", "extend-D-in-proto3", func(ws *WS) {
			ws.Main().Decls = append(ws.Main().Decls, &ExtBlock{Extendee: "D", Fields: []*Field{f("", "int32", "x1", 100)}})
		})
	}
	// service
	S := func(ws *WS) *Svc { return ws.AS }
	for _, t := range []string{"E", "Nope", "D", "M.Inner", ".a.b.c.M", "a.P", "f1", "S"} {
		t := t
		add("S.input", t, func(ws *WS) { S(ws).Methods[0].In = t })
	}
	add("S.stream", "client", func(ws *WS) { S(ws).Methods[0].InStream = true })
	add("S.stream", "both", func(ws *WS) { S(ws).Methods[0].InStream = true; S(ws).Methods[0].OutStream = true })
	add("S.more", "second-rpc-R", func(ws *WS) { S(ws).Methods = append(S(ws).Methods, &Method{Name: "R", In: "M", Out: "M"}) })
	add("S.more", "second-rpc-Q", func(ws *WS) { S(ws).Methods = append(S(ws).Methods, &Method{Name: "Q", In: "D", Out: "M"}) })
	add("S.name", "M", func(ws *WS) { S(ws).Name = "M" })
	add("S.name", "c", func(ws *WS) { S(ws).Name = "c" })
	add("S.opts", "deprecated", func(ws *WS) { S(ws).Opts = []Option{{"deprecated", "true"}} })
	add("S.opts", "method-idempotent", func(ws *WS) { S(ws).Methods[0].Opts = []Option{{"idempotency_level", "IDEMPOTENT"}} })
	add("S.opts", "method-idempotency-nope", func(ws *WS) { S(ws).Methods[0].Opts = []Option{{"idempotency_level", "NOPE"}} })
	// imports of main
	add("imports", "public", func(ws *WS) { ws.Main().Imports[0].Kind = "public" })
	add("imports", "weak", func(ws *WS) { ws.Main().Imports[0].Kind = "weak" })
	add("imports", "extra-pub", func(ws *WS) { ws.Main().Imports = append(ws.Main().Imports, Import{"pub.proto", ""}) })
	add("imports", "extra-nope", func(ws *WS) { ws.Main().Imports = append(ws.Main().Imports, Import{"nope.proto", ""}) })
	add("imports", "dep-twice", func(ws *WS) { ws.Main().Imports = append(ws.Main().Imports, Import{"dep.proto", ""}) })
	add("imports", "none", func(ws *WS) { ws.Main().Imports = nil })
	add("imports", "only-pub", func(ws *WS) { ws.Main().Imports = []Import{{"pub.proto", ""}} })
	// modifiers in every order (the public and the weak import lists are indexed separately)
	add("imports", "public-then-weak-pub", func(ws *WS) {
		ws.Main().Imports[0].Kind = "public"
		ws.Main().Imports = append(ws.Main().Imports, Import{"pub.proto", "weak"})
	})
	add("imports", "weak-then-public-pub", func(ws *WS) {
		ws.Main().Imports[0].Kind = "weak"
		ws.Main().Imports = append(ws.Main().Imports, Import{"pub.proto", "public"})
	})
	add("imports", "plain-pub-first-then-public", func(ws *WS) {
		ws.Main().Imports = append([]Import{{"pub.proto", ""}}, ws.Main().Imports...)
		ws.Main().Imports[1].Kind = "public"
	})
	add("imports", "self", func(ws *WS) { ws.Main().Imports = append(ws.Main().Imports, Import{"main.proto", ""}) })
	add("dep.imports", "pub-not-public", func(ws *WS) { ws.File("dep.proto").Imports[0].Kind = "" })
	// package of main
	for _, p := range []string{"a.b", "x", "", "a.b.D", "a.b.E", "a", "a.b.c.M", "a.b.a", "a.a", "a.bb", "ab.c", "b.a.b"} {
		p := p
		add("package", "'"+p+"'", func(ws *WS) { ws.Main().Package = p })
	}
	// file and message options
	add("file.opts", "java_package", func(ws *WS) { ws.Main().Options = []Option{{"java_package", "\"com.x\""}} })
	add("file.opts", "java_package-int", func(ws *WS) { ws.Main().Options = []Option{{"java_package", "5"}} })
	add("file.opts", "optimize_for-CODE_SIZE", func(ws *WS) { ws.Main().Options = []Option{{"optimize_for", "CODE_SIZE"}} })
	add("file.opts", "optimize_for-NOPE", func(ws *WS) { ws.Main().Options = []Option{{"optimize_for", "NOPE"}} })
	add("file.opts", "deprecated-twice", func(ws *WS) { ws.Main().Options = []Option{{"deprecated", "true"}, {"deprecated", "true"}} })
	add("M.opts", "deprecated", func(ws *WS) { M(ws).Body = append([]any{&Option{"deprecated", "true"}}, M(ws).Body...) })
	add("M.opts", "deprecated-int", func(ws *WS) { M(ws).Body = append([]any{&Option{"deprecated", "3"}}, M(ws).Body...) })
	// nested message name clashes
	add("Inner.name", "ME", func(ws *WS) { ws.AInner.Name = "ME" })
	add("Inner.name", "f1", func(ws *WS) { ws.AInner.Name = "f1" })
	add("Inner.name", "D", func(ws *WS) { ws.AInner.Name = "D" })
	add("Inner.name", "M", func(ws *WS) { ws.AInner.Name = "M" })
	add("M.name", "D", func(ws *WS) { M(ws).Name = "D"; S(ws).Methods[0].In = "D" })
	add("M.name", "P", func(ws *WS) { M(ws).Name = "P"; S(ws).Methods[0].In = "P" })
	add("dep.D", "renamed", func(ws *WS) { firstMsg(ws.File("dep.proto")).Name = "DD" })
	// extension declarations on D's range in dep.proto (main extends D with `int32 x1 = 100`, a.b.c.x1)
	depRange := func(ws *WS) (*Msg, int) {
		d := firstMsg(ws.File("dep.proto"))
		for i, x := range d.Body {
			if _, ok := x.(*ExtRange); ok {
				return d, i
			}
		}
		panic("dep.D has no extension range")
	}
	declDev := func(name string, ranges ...*ExtRange) {
		add("dep.D", "ext-"+name, func(ws *WS) {
			d, i := depRange(ws)
			var repl []any
			for _, r := range ranges {
				cp := *r
				repl = append(repl, &cp)
			}
			d.Body = append(append(append([]any(nil), d.Body[:i]...), repl...), d.Body[i+1:]...)
		})
	}
	whole := [][2]int64{{100, 199}}
	okDecl := ExtDecl{Number: 100, FullName: ".a.b.c.x1", Type: "int32"}
	declDev("declared", &ExtRange{Ranges: whole, Decls: []ExtDecl{okDecl}})
	declDev("declared-verification", &ExtRange{Ranges: whole, Verification: "DECLARATION", Decls: []ExtDecl{okDecl}})
	declDev("declared-other-number", &ExtRange{Ranges: whole, Decls: []ExtDecl{{Number: 101, FullName: ".a.b.c.x1", Type: "int32"}}})
	declDev("verification-only", &ExtRange{Ranges: whole, Verification: "DECLARATION"})
	declDev("unverified-only", &ExtRange{Ranges: whole, Verification: "UNVERIFIED"})
	declDev("unverified-with-declaration", &ExtRange{Ranges: whole, Verification: "UNVERIFIED", Decls: []ExtDecl{okDecl}})
	declDev("declared-other-name", &ExtRange{Ranges: whole, Decls: []ExtDecl{{Number: 100, FullName: ".a.b.c.x9", Type: "int32"}}})
	declDev("declared-other-type", &ExtRange{Ranges: whole, Decls: []ExtDecl{{Number: 100, FullName: ".a.b.c.x1", Type: "int64"}}})
	declDev("declared-message-type", &ExtRange{Ranges: whole, Decls: []ExtDecl{{Number: 100, FullName: ".a.b.c.x1", Type: ".a.b.D"}}})
	declDev("declared-repeated", &ExtRange{Ranges: whole, Decls: []ExtDecl{{Number: 100, FullName: ".a.b.c.x1", Type: "int32", Repeated: true}}})
	declDev("declared-reserved", &ExtRange{Ranges: whole, Decls: []ExtDecl{{Number: 100, Reserved: true}}})
	declDev("declared-reserved-named", &ExtRange{Ranges: whole, Decls: []ExtDecl{{Number: 100, FullName: ".a.b.c.x1", Type: "int32", Reserved: true}}})
	declDev("declared-no-dot", &ExtRange{Ranges: whole, Decls: []ExtDecl{{Number: 100, FullName: "a.b.c.x1", Type: "int32"}}})
	declDev("declared-type-no-dot", &ExtRange{Ranges: whole, Decls: []ExtDecl{{Number: 100, FullName: ".a.b.c.x1", Type: "a.b.D"}}})
	declDev("declared-outside", &ExtRange{Ranges: whole, Decls: []ExtDecl{okDecl, {Number: 250, FullName: ".a.b.c.y", Type: "int32"}}})
	declDev("declared-number-twice", &ExtRange{Ranges: whole, Decls: []ExtDecl{okDecl, {Number: 100, FullName: ".a.b.c.y", Type: "int32"}}})
	declDev("declared-name-twice", &ExtRange{Ranges: whole, Decls: []ExtDecl{okDecl, {Number: 101, FullName: ".a.b.c.x1", Type: "int32"}}})
	declDev("declared-name-only", &ExtRange{Ranges: whole, Decls: []ExtDecl{{Number: 100, FullName: ".a.b.c.x1"}}})
	declDev("declared-bare", &ExtRange{Ranges: whole, Decls: []ExtDecl{{Number: 100}}})
	declDev("declared-on-two-ranges", &ExtRange{Ranges: [][2]int64{{100, 149}, {150, 199}}, Decls: []ExtDecl{okDecl}})
	// adjacent ranges: the extension sits on the first number of the upper one
	declDev("lower-verified-upper-plain", &ExtRange{Ranges: [][2]int64{{50, 99}}, Verification: "DECLARATION"}, &ExtRange{Ranges: whole})
	declDev("lower-plain-upper-declares-other-name", &ExtRange{Ranges: [][2]int64{{50, 99}}}, &ExtRange{Ranges: whole, Decls: []ExtDecl{{Number: 100, FullName: ".a.b.c.x9", Type: "int32"}}})
	declDev("lower-declared-upper-declared", &ExtRange{Ranges: [][2]int64{{50, 99}}, Decls: []ExtDecl{{Number: 99, FullName: ".a.b.c.x1", Type: "int32"}}}, &ExtRange{Ranges: whole, Decls: []ExtDecl{{Number: 100, FullName: ".a.b.c.x2", Type: "int32"}}})
	declDev("upper-first-lower-verified", &ExtRange{Ranges: whole}, &ExtRange{Ranges: [][2]int64{{50, 99}}, Verification: "DECLARATION"})
	if syntax == "2023" {
		// `features` written as a message literal, with and without an extension of FeatureSet inside
		// (google/protobuf/go_features.proto is a standard import)
		goImp := func(ws *WS) { ws.Main().Imports = append(ws.Main().Imports, Import{"google/protobuf/go_features.proto", ""}) }
		add("features.literal", "file-plain", func(ws *WS) {
			ws.Main().Options = append(ws.Main().Options, Option{"features", "{ field_presence: IMPLICIT }"})
		})
		add("features.literal", "file-with-extension", func(ws *WS) {
			goImp(ws)
			ws.Main().Options = append(ws.Main().Options, Option{"features", "{ field_presence: IMPLICIT, [pb.go] { legacy_unmarshal_json_enum: true } }"})
		})
		add("features.literal", "file-only-extension", func(ws *WS) {
			goImp(ws)
			ws.Main().Options = append(ws.Main().Options, Option{"features", "{ [pb.go] { legacy_unmarshal_json_enum: true } }"})
		})
		add("features.literal", "file-extension-path", func(ws *WS) {
			goImp(ws)
			ws.Main().Options = append(ws.Main().Options, Option{"features.(pb.go).legacy_unmarshal_json_enum", "true"})
		})
		add("features.literal", "field-with-extension", func(ws *WS) {
			goImp(ws)
			F(ws, "f1").Opts = append(F(ws, "f1").Opts, Option{"features", "{ field_presence: IMPLICIT, [pb.go] { legacy_unmarshal_json_enum: true } }"})
		})
		add("features.literal", "enum-with-extension", func(ws *WS) {
			goImp(ws)
			ws.AME.Body = append([]any{&Option{"features", "{ enum_type: CLOSED, [pb.go] { legacy_unmarshal_json_enum: true } }"}}, ws.AME.Body...)
		})
	}
	add("second-message", "field-of-M", func(ws *WS) {
		ws.Main().Decls = append(ws.Main().Decls, &Msg{Name: "M2", Body: []any{f(lab, "M", "m", 1), f(lab, "M.Inner", "n", 2), f(lab, "M.ME", "e", 3)}})
	})
	// sibling declarations that define names equal to names referenced elsewhere (scope leakage)
	add("sibling", "service-before-with-rpcs-named-M-D", func(ws *WS) {
		fl := ws.Main()
		s0 := &Svc{Name: "S0", Methods: []*Method{{Name: "M", In: ".a.b.D", Out: ".a.b.D"}, {Name: "D", In: ".a.P", Out: ".a.P"}, {Name: "Inner", In: ".a.b.D", Out: ".a.P"}}}
		i := indexOf(fl.Decls, any(S(ws)))
		fl.Decls = append(append(append([]any(nil), fl.Decls[:i]...), s0), fl.Decls[i:]...)
	})
	add("sibling", "service-after-with-rpcs-named-M-D", func(ws *WS) {
		ws.Main().Decls = append(ws.Main().Decls, &Svc{Name: "S9", Methods: []*Method{{Name: "M", In: ".a.b.D", Out: ".a.b.D"}, {Name: "D", In: ".a.P", Out: ".a.P"}}})
	})
	add("sibling", "message-before-with-nested-D-E-Inner", func(ws *WS) {
		fl := ws.Main()
		z := &Msg{Name: "Z", Body: []any{&Msg{Name: "D"}, &Msg{Name: "Inner"}, &Enum{Name: "E", Body: []any{&EnumVal{Name: "Z0", Number: 0}}}, f(lab, "D", "zd", 1), f(lab, "E", "ze", 2)}}
		fl.Decls = append([]any{z}, fl.Decls...)
	})
	add("sibling", "message-after-with-nested-D-E-M", func(ws *WS) {
		ws.Main().Decls = append(ws.Main().Decls, &Msg{Name: "Z", Body: []any{&Msg{Name: "D"}, &Msg{Name: "M"}, &Enum{Name: "E", Body: []any{&EnumVal{Name: "Z0", Number: 0}}}, f(lab, "M", "zm", 1), f(lab, ".a.b.c.M", "zm2", 2)}})
	})
	add("sibling", "enum-with-values-named-D-P", func(ws *WS) {
		ws.Main().Decls = append(ws.Main().Decls, &Enum{Name: "ZE", Body: []any{&EnumVal{Name: "D", Number: 0}, &EnumVal{Name: "P", Number: 1}}})
	})
	add("sibling", "field-in-M-named-D", func(ws *WS) { M(ws).Body = append(M(ws).Body, f(lab, "int32", "D", 8)) })
	add("sibling", "field-in-M-named-E-and-nested-msg-b", func(ws *WS) {
		M(ws).Body = append(M(ws).Body, f(lab, "int32", "E", 8), &Msg{Name: "b", Body: []any{f(lab, "int32", "q", 1)}})
	})
	add("sibling", "inner-defines-D", func(ws *WS) {
		in := ws.AInner
		in.Body = append(in.Body, &Msg{Name: "D"}, f(lab, "D", "id", 2), f(lab, "M.Inner.D", "id2", 3), f(lab, "b.D", "id3", 4))
	})
	add("sibling", "nested-message-named-a", func(ws *WS) {
		M(ws).Body = append(M(ws).Body, &Msg{Name: "a", Body: []any{f(lab, "int32", "q", 1)}}, f(lab, "a.b.D", "fa", 8))
	})
	add("sibling", "nested-message-named-a-unused", func(ws *WS) { M(ws).Body = append(M(ws).Body, &Msg{Name: "a"}) })
	add("sibling", "nested-enum-named-a-unused", func(ws *WS) {
		M(ws).Body = append(M(ws).Body, &Enum{Name: "a", Body: []any{&EnumVal{Name: "A0", Number: 0}}})
	})
	add("sibling", "top-level-message-named-a", func(ws *WS) { ws.Main().Decls = append(ws.Main().Decls, &Msg{Name: "a"}) })
	add("sibling", "inner-message-named-M", func(ws *WS) { ws.AInner.Body = append(ws.AInner.Body, &Msg{Name: "M"}, f(lab, "M", "im", 7)) })
	add("sibling", "extension-in-M-named-like-field-D", func(ws *WS) {
		if syntax == "proto3" {
			return
		}
		M(ws).Body = append(M(ws).Body, &ExtBlock{Extendee: "D", Fields: []*Field{f(lab, "D", "D", 150)}})
	})
	// custom options: each deviation brings its own definitions (opt.proto) and import
	optFile := func() *File {
		return &File{Name: "opt.proto", Syntax: "proto2", Package: "o", Imports: []Import{{"google/protobuf/descriptor.proto", ""}}, Raw: `message OM { optional int32 a = 1; optional string b = 2; repeated int32 r = 3; optional OM m = 4; map<string, int32> mp = 5; extensions 100 to 200; }
extend OM { optional int32 ome = 100; }
enum OE { OE0 = 0; OE1 = 1; }
extend google.protobuf.FileOptions { optional int32 flo = 50001; optional OM flm = 50002; }
extend google.protobuf.MessageOptions { optional int32 mo = 50001; optional OM mm = 50002; repeated string mr = 50003; }
extend google.protobuf.FieldOptions { optional int32 fo = 50001; optional OM fm = 50002; optional OE fe = 50003; repeated int32 fr = 50004; optional float ff = 50005; optional bytes fb = 50006; }
extend google.protobuf.OneofOptions { optional int32 oo = 50001; }
extend google.protobuf.EnumOptions { optional int32 eo = 50001; }
extend google.protobuf.EnumValueOptions { optional int32 evo = 50001; optional OM evm = 50002; }
extend google.protobuf.ServiceOptions { optional int32 so = 50001; }
extend google.protobuf.MethodOptions { optional int32 mto = 50001; optional OM mtm = 50002; }
extend google.protobuf.ExtensionRangeOptions { optional int32 ero = 50001; }
`}
	}
	withOpt := func(name string, apply func(ws *WS)) {
		add("custom", name, func(ws *WS) {
			ws.Files = append([]*File{optFile()}, ws.Files...)
			ws.Main().Imports = append(ws.Main().Imports, Import{"opt.proto", ""})
			apply(ws)
		})
	}
	fieldOpt := func(name string, opts ...Option) {
		withOpt("field:"+name, func(ws *WS) { F(ws, "f1").Opts = append(F(ws, "f1").Opts, opts...) })
	}
	fieldOpt("scalar", Option{"(o.fo)", "1"})
	fieldOpt("scalar-relative-name", Option{"(fo)", "1"})
	fieldOpt("scalar-absolute-name", Option{"(.o.fo)", "1"})
	fieldOpt("scalar-negative", Option{"(o.fo)", "-1"})
	fieldOpt("scalar-overflow", Option{"(o.fo)", "2147483648"})
	fieldOpt("scalar-string", Option{"(o.fo)", "\"x\""})
	fieldOpt("scalar-twice", Option{"(o.fo)", "1"}, Option{"(o.fo)", "2"})
	fieldOpt("unknown-name", Option{"(o.nope)", "1"})
	fieldOpt("message-option-on-field", Option{"(o.mo)", "1"})
	fieldOpt("aggregate", Option{"(o.fm)", "{ a: 1 b: \"x\" r: [1, 2] m { a: 2 } mp { key: \"k\" value: 3 } [o.ome]: 4 }"})
	fieldOpt("aggregate-unknown-field", Option{"(o.fm)", "{ zz: 1 }"})
	fieldOpt("aggregate-angle", Option{"(o.fm)", "< a: 1, b: 'y'; >"})
	fieldOpt("path", Option{"(o.fm).a", "1"}, Option{"(o.fm).b", "\"x\""})
	fieldOpt("path-nested", Option{"(o.fm).m.a", "1"}, Option{"(o.fm).m.m.b", "\"x\""})
	fieldOpt("path-extension", Option{"(o.fm).(o.ome)", "5"})
	fieldOpt("path-same-twice", Option{"(o.fm).a", "1"}, Option{"(o.fm).a", "2"})
	fieldOpt("path-through-scalar", Option{"(o.fo).a", "1"})
	fieldOpt("path-then-aggregate", Option{"(o.fm).a", "1"}, Option{"(o.fm)", "{ b: \"x\" }"})
	fieldOpt("repeated", Option{"(o.fr)", "1"}, Option{"(o.fr)", "2"})
	fieldOpt("repeated-path", Option{"(o.fm).r", "1"}, Option{"(o.fm).r", "2"})
	fieldOpt("enum", Option{"(o.fe)", "OE1"})
	fieldOpt("enum-number", Option{"(o.fe)", "1"})
	fieldOpt("enum-unknown", Option{"(o.fe)", "OE9"})
	fieldOpt("float-int", Option{"(o.ff)", "1"})
	fieldOpt("float-inf", Option{"(o.ff)", "-inf"})
	fieldOpt("float-nan", Option{"(o.ff)", "nan"})
	fieldOpt("bytes", Option{"(o.fb)", "\"\\x00\\377a\""})
	fieldOpt("with-builtin", Option{"deprecated", "true"}, Option{"(o.fo)", "3"}, Option{"json_name", "\"jj\""})
	withOpt("file", func(ws *WS) { ws.Main().Options = append(ws.Main().Options, Option{"(o.flo)", "7"}, Option{"(o.flm).a", "1"}) })
	withOpt("message", func(ws *WS) {
		M(ws).Body = append([]any{&Option{"(o.mo)", "1"}, &Option{"(o.mm)", "{ a: 1 }"}, &Option{"(o.mr)", "\"a\""}, &Option{"(o.mr)", "\"b\""}}, M(ws).Body...)
	})
	withOpt("oneof", func(ws *WS) {
		M(ws).Body = append(M(ws).Body, &Oneof{Name: "oz", Opts: []Option{{"(o.oo)", "1"}}, Fields: []*Field{f("", "int32", "q", 9)}})
	})
	withOpt("enum+value", func(ws *WS) {
		e := ME(ws)
		e.Body = append([]any{&Option{"(o.eo)", "1"}}, e.Body...)
		for _, x := range e.Body {
			if v, ok := x.(*EnumVal); ok {
				v.Opts = append(v.Opts, Option{"(o.evo)", "2"}, Option{"(o.evm)", "{ b: \"v\" }"})
			}
		}
	})
	withOpt("service+method", func(ws *WS) {
		S(ws).Opts = append(S(ws).Opts, Option{"(o.so)", "1"})
		S(ws).Methods[0].Opts = append(S(ws).Methods[0].Opts, Option{"(o.mto)", "2"}, Option{"(o.mtm).m.a", "3"})
	})
	if syntax != "proto3" {
		withOpt("extension-ranges-standard-then-custom", func(ws *WS) {
			M(ws).Body = append(M(ws).Body, &ExtRange{Ranges: [][2]int64{{500, 600}, {700, 800}}, Opts: []Option{{"verification", "UNVERIFIED"}, {"(o.ero)", "1"}}})
		})
		withOpt("extension-ranges-custom-then-standard", func(ws *WS) {
			M(ws).Body = append(M(ws).Body, &ExtRange{Ranges: [][2]int64{{500, 600}, {700, 800}, {900, 901}}, Opts: []Option{{"(o.ero)", "1"}, {"verification", "UNVERIFIED"}}})
		})
		withOpt("extension-range", func(ws *WS) {
			M(ws).Body = append(M(ws).Body, &ExtRange{Ranges: [][2]int64{{500, 600}}, Opts: []Option{{"(o.ero)", "1"}}})
		})
	}
	// editions features (only meaningful on the edition base; on the others they must be rejected)
	feat := func(level, name string, apply func(ws *WS)) { add("features."+level, name, apply) }
	for _, fv := range [][2]string{{"field_presence", "EXPLICIT"}, {"field_presence", "IMPLICIT"}, {"field_presence", "LEGACY_REQUIRED"}, {"enum_type", "OPEN"}, {"enum_type", "CLOSED"},
		{"repeated_field_encoding", "PACKED"}, {"repeated_field_encoding", "EXPANDED"}, {"utf8_validation", "VERIFY"}, {"utf8_validation", "NONE"},
		{"message_encoding", "LENGTH_PREFIXED"}, {"message_encoding", "DELIMITED"}, {"json_format", "ALLOW"}, {"json_format", "LEGACY_BEST_EFFORT"}, {"field_presence", "NOPE"}} {
		fv := fv
		o := Option{"features." + fv[0], fv[1]}
		if syntax != "2023" && !(fv[0] == "field_presence" && fv[1] == "IMPLICIT") {
			continue // one representative is enough on the non-edition bases
		}
		feat("file", fv[0]+"="+fv[1], func(ws *WS) { ws.Main().Options = append(ws.Main().Options, o) })
		feat("f1", fv[0]+"="+fv[1], func(ws *WS) { F(ws, "f1").Opts = append(F(ws, "f1").Opts, o) })
		feat("f2", fv[0]+"="+fv[1], func(ws *WS) { F(ws, "f2").Opts = append(F(ws, "f2").Opts, o) })
		feat("f3", fv[0]+"="+fv[1], func(ws *WS) { F(ws, "f3").Opts = append(F(ws, "f3").Opts, o) })
		feat("M", fv[0]+"="+fv[1], func(ws *WS) { M(ws).Body = append([]any{&Option{o.Name, o.Value}}, M(ws).Body...) })
		feat("ME", fv[0]+"="+fv[1], func(ws *WS) { e := ME(ws); e.Body = append([]any{&Option{o.Name, o.Value}}, e.Body...) })
	}
	if syntax == "2023" {
		for _, mf := range [][3]string{{"int32", "string", "features.utf8_validation=NONE"}, {"string", "int32", "features.utf8_validation=NONE"}, {"int32", "int32", "features.utf8_validation=NONE"},
			{"string", "bytes", "features.utf8_validation=VERIFY"}, {"int32", "D", "features.message_encoding=DELIMITED"}, {"int32", "int32", "features.repeated_field_encoding=EXPANDED"}, {"int32", "E", "features.field_presence=IMPLICIT"}} {
			mf := mf
			add("map", "feature:"+mf[0]+","+mf[1]+":"+mf[2], func(ws *WS) {
				kv := strings.SplitN(mf[2], "=", 2)
				M(ws).Body = append(M(ws).Body, &Field{Name: "m", Number: 4, Map: &[2]string{mf[0], mf[1]}, Opts: []Option{{kv[0], kv[1]}}})
			})
		}
		add("f1.type", "string-repeated", func(ws *WS) { F(ws, "f1").Type = "string"; F(ws, "f1").Label = "repeated" })
		add("f1.label", "repeated-int", func(ws *WS) { F(ws, "f1").Label = "repeated" })
	}
	return out
}

func innerOf(m *Msg) *Msg {
	for _, d := range m.Body {
		if x, ok := d.(*Msg); ok {
			return x
		}
	}
	return nil
}

// Apply builds the base for syntax and applies the deviations with the given catalogue indices.
func Apply(syntax string, cat []Dev, idx ...int) *WS {
	ws := Base(syntax)
	for _, i := range idx {
		cat[i].Apply(ws)
		ws.Notes = append(ws.Notes, cat[i].Name)
	}
	return ws
}

func firstMsg(fl *File) *Msg {
	for _, d := range fl.Decls {
		if m, ok := d.(*Msg); ok {
			return m
		}
	}
	return nil
}

func firstEnum(m *Msg) *Enum {
	for _, d := range m.Body {
		if e, ok := d.(*Enum); ok {
			return e
		}
	}
	return nil
}

// nthField returns the n-th field of m in declaration order, looking inside oneofs.
func nthField(m *Msg, n int) *Field {
	for _, d := range m.Body {
		switch d := d.(type) {
		case *Field:
			if n == 0 {
				return d
			}
			n--
		case *Oneof:
			for _, fd := range d.Fields {
				if n == 0 {
					return fd
				}
				n--
			}
		}
	}
	return nil
}
