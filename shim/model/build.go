package model

import (
	"fmt"
	"math"
	"strconv"
	"strings"

	"google.golang.org/protobuf/proto"
	"google.golang.org/protobuf/types/descriptorpb"
)

var scalarTypes = map[string]descriptorpb.FieldDescriptorProto_Type{
	"double": descriptorpb.FieldDescriptorProto_TYPE_DOUBLE, "float": descriptorpb.FieldDescriptorProto_TYPE_FLOAT,
	"int64": descriptorpb.FieldDescriptorProto_TYPE_INT64, "uint64": descriptorpb.FieldDescriptorProto_TYPE_UINT64,
	"int32": descriptorpb.FieldDescriptorProto_TYPE_INT32, "fixed64": descriptorpb.FieldDescriptorProto_TYPE_FIXED64,
	"fixed32": descriptorpb.FieldDescriptorProto_TYPE_FIXED32, "bool": descriptorpb.FieldDescriptorProto_TYPE_BOOL,
	"string": descriptorpb.FieldDescriptorProto_TYPE_STRING, "bytes": descriptorpb.FieldDescriptorProto_TYPE_BYTES,
	"uint32": descriptorpb.FieldDescriptorProto_TYPE_UINT32, "sfixed32": descriptorpb.FieldDescriptorProto_TYPE_SFIXED32,
	"sfixed64": descriptorpb.FieldDescriptorProto_TYPE_SFIXED64, "sint32": descriptorpb.FieldDescriptorProto_TYPE_SINT32,
	"sint64": descriptorpb.FieldDescriptorProto_TYPE_SINT64,
}

// ScalarNames lists the scalar type keywords in a fixed order.
var ScalarNames = []string{"double", "float", "int64", "uint64", "int32", "fixed64", "fixed32", "bool", "string", "bytes", "uint32", "sfixed32", "sfixed64", "sint32", "sint64"}

// Result of checking and lowering one workspace.
type Result struct {
	Verdict Verdict
	Reason  string // first rule violated (Reject) or first thing the model does not cover (Unknown)
	Rule    string // short rule id for signatures
	Files   map[string]*descriptorpb.FileDescriptorProto
	// Warnings the model expects (e.g. unused imports are not modelled; only JSON-name conflicts in proto2)
}

type builder struct {
	ws      *WS
	t       *Table
	reject  string
	rule    string
	unknown string
	// hard is set when the workspace uses something that changes how the other rules apply
	// (editions features): then not even a rule violation is decided
	hard bool
	// editions features
	closed   map[string]bool // enum full name -> closed
	fileFeat featSet         // resolved features of the file being built
	cur      featSet         // resolved features of the enclosing scope
}

func (b *builder) rej(rule, format string, args ...any) {
	if b.reject == "" {
		b.reject = fmt.Sprintf(format, args...)
		b.rule = rule
	}
}

func (b *builder) unk(format string, args ...any) {
	if b.unknown == "" {
		b.unknown = fmt.Sprintf(format, args...)
	}
	if strings.Contains(format, "[hard]") {
		b.hard = true
	}
}

// Check applies the acceptance rules of Appendix A to the workspace and, if it is accepted,
// lowers it to the descriptors protoc would produce.
func Check(ws *WS) *Result {
	b := &builder{ws: ws, t: NewTable(ws)}
	b.resolveEnumTypes()
	// `features` written as a message literal, or a path through an extension of FeatureSet: the
	// model reads features only in the `features.<name> = VALUE` form, so nothing that depends on
	// resolved features can be decided
	if src := ws.String(); strings.Contains(src, "features = {") || strings.Contains(src, "features.(") {
		b.unk("[hard] features written as a message literal or through an extension")
	}
	files := map[string]*descriptorpb.FileDescriptorProto{}
	// rule 14: imports
	for _, fl := range ws.Files {
		seen := map[string]bool{}
		for _, im := range fl.Imports {
			if ws.File(im.Path) == nil && !IsStdImport(im.Path) {
				b.rej("import-missing", "%s imports %s, which does not exist", fl.Name, im.Path)
			}
			if IsStdImport(im.Path) {
				b.unk("standard import %s", im.Path)
			}
			if seen[im.Path] {
				b.rej("import-duplicate", "%s imports %s twice", fl.Name, im.Path)
			}
			seen[im.Path] = true
			if im.Kind == "weak" {
				b.unk("weak import")
			}
			if im.Path == fl.Name {
				b.rej("import-self", "%s imports itself", fl.Name)
			}
		}
	}
	// rule 8: unique names in the pool (only files that are linked together matter; the base
	// workspace links all three files)
	for _, name := range b.t.Dups {
		ss := b.t.Syms[name]
		b.rej("duplicate-symbol", "%s defined twice (%s in %s, %s in %s)", name, ss[0].Kind, ss[0].File, ss[1].Kind, ss[1].File)
	}
	for _, fl := range ws.Files {
		files[fl.Name] = b.file(fl)
	}
	res := &Result{}
	switch {
	case b.hard:
		res.Verdict, res.Reason = Unknown, b.unknown
	case b.reject != "":
		// an unknown construct may hide a second opinion, but a violated rule stays violated
		res.Verdict, res.Reason, res.Rule = Reject, b.reject, b.rule
	case b.unknown != "":
		res.Verdict, res.Reason = Unknown, b.unknown
	default:
		res.Verdict, res.Files = Accept, files
	}
	return res
}

func (b *builder) file(fl *File) *descriptorpb.FileDescriptorProto {
	fd := &descriptorpb.FileDescriptorProto{Name: proto.String(fl.Name)}
	if fl.Raw != "" {
		b.unk("raw text in %s", fl.Name)
	}
	if fl.Package != "" {
		fd.Package = proto.String(fl.Package)
	}
	switch fl.Syntax {
	case "proto2", "":
	case "proto3":
		fd.Syntax = proto.String("proto3")
	case "2023":
		fd.Syntax = proto.String("editions")
		fd.Edition = descriptorpb.Edition_EDITION_2023.Enum()
	default:
		b.unk("edition %s", fl.Syntax)
	}
	for i, im := range fl.Imports {
		fd.Dependency = append(fd.Dependency, im.Path)
		switch im.Kind {
		case "public":
			fd.PublicDependency = append(fd.PublicDependency, int32(i))
		case "weak":
			fd.WeakDependency = append(fd.WeakDependency, int32(i))
		}
	}
	b.fileFeat = defaultFeatures(fl.Syntax)
	if len(fl.Options) > 0 {
		fo := &descriptorpb.FileOptions{}
		seen := map[string]bool{}
		for _, o := range fl.Options {
			if seen[o.Name] {
				b.rej("option-set-twice", "file option %s set twice", o.Name)
			}
			seen[o.Name] = true
			if isFeature(o.Name) {
				if b.applyFeature(fl, o, "file", fl.Name, &b.fileFeat, &fo.Features) && o.Name == "features.field_presence" && o.Value == "LEGACY_REQUIRED" {
					b.rej("feature-required-file-default", "%s: LEGACY_REQUIRED cannot be the file default", fl.Name)
				}
				continue
			}
			switch o.Name {
			case "java_package":
				if s, ok := strLit(o.Value); ok {
					fo.JavaPackage = proto.String(s)
				} else {
					b.rej("option-type", "java_package = %s is not a string", o.Value)
				}
			case "deprecated":
				fo.Deprecated = b.boolOpt(o)
			case "java_multiple_files":
				fo.JavaMultipleFiles = b.boolOpt(o)
			case "optimize_for":
				switch o.Value {
				case "SPEED":
					fo.OptimizeFor = descriptorpb.FileOptions_SPEED.Enum()
				case "CODE_SIZE":
					fo.OptimizeFor = descriptorpb.FileOptions_CODE_SIZE.Enum()
				case "LITE_RUNTIME":
					b.unk("optimize_for = LITE_RUNTIME")
				default:
					b.rej("option-enum-value", "optimize_for = %s is not a value of OptimizeMode", o.Value)
				}
			default:
				b.unk("file option %s", o.Name)
			}
		}
		fd.Options = fo
	}
	b.cur = b.fileFeat
	for _, d := range fl.Decls {
		switch d := d.(type) {
		case *Msg:
			fd.MessageType = append(fd.MessageType, b.msg(fl, fl.Package, d))
		case *Enum:
			fd.EnumType = append(fd.EnumType, b.enum(fl, fl.Package, d))
		case *ExtBlock:
			var sink []*descriptorpb.DescriptorProto
			for _, x := range d.Fields {
				fd.Extension = append(fd.Extension, b.field(fl, fl.Package, x, d.Extendee, nil, &sink))
			}
			fd.MessageType = append(fd.MessageType, sink...)
		case *Svc:
			fd.Service = append(fd.Service, b.svc(fl, d))
		}
	}
	return fd
}

func strLit(v string) (string, bool) {
	if len(v) >= 2 && (v[0] == '"' && v[len(v)-1] == '"' || v[0] == '\'' && v[len(v)-1] == '\'') {
		body := v[1 : len(v)-1]
		if strings.ContainsAny(body, "\\\"'\n") {
			return "", false
		}
		return body, true
	}
	return "", false
}

func (b *builder) boolOpt(o Option) *bool {
	switch o.Value {
	case "true":
		return proto.Bool(true)
	case "false":
		return proto.Bool(false)
	}
	b.rej("option-type", "%s = %s is not a bool", o.Name, o.Value)
	return nil
}

func (b *builder) svc(fl *File, s *Svc) *descriptorpb.ServiceDescriptorProto {
	sd := &descriptorpb.ServiceDescriptorProto{Name: proto.String(s.Name)}
	full := qual(fl.Package, s.Name)
	for _, o := range s.Opts {
		if o.Name == "deprecated" {
			if sd.Options == nil {
				sd.Options = &descriptorpb.ServiceOptions{}
			}
			sd.Options.Deprecated = b.boolOpt(o)
		} else {
			b.unk("service option %s", o.Name)
		}
	}
	for _, m := range s.Methods {
		md := &descriptorpb.MethodDescriptorProto{Name: proto.String(m.Name)}
		rel := qual(full, m.Name)
		for i, ref := range []string{m.In, m.Out} {
			sym, ok := b.t.Lookup(fl.Name, ref, rel, false)
			switch {
			case !ok:
				b.rej("unresolved-rpc-type", "method %s: type %s does not resolve", rel, ref)
			case sym.Kind != KMessage:
				b.rej("rpc-type-not-message", "method %s: %s is %s, not a message", rel, ref, sym.Kind)
			}
			if i == 0 {
				md.InputType = proto.String("." + sym.Name)
			} else {
				md.OutputType = proto.String("." + sym.Name)
			}
		}
		if m.InStream {
			md.ClientStreaming = proto.Bool(true)
		}
		if m.OutStream {
			md.ServerStreaming = proto.Bool(true)
		}
		for _, o := range m.Opts {
			switch o.Name {
			case "deprecated":
				if md.Options == nil {
					md.Options = &descriptorpb.MethodOptions{}
				}
				md.Options.Deprecated = b.boolOpt(o)
			case "idempotency_level":
				if md.Options == nil {
					md.Options = &descriptorpb.MethodOptions{}
				}
				v, ok := descriptorpb.MethodOptions_IdempotencyLevel_value[o.Value]
				if !ok {
					b.rej("option-enum-value", "idempotency_level = %s", o.Value)
				}
				md.Options.IdempotencyLevel = descriptorpb.MethodOptions_IdempotencyLevel(v).Enum()
			default:
				b.unk("method option %s", o.Name)
			}
		}
		sd.Method = append(sd.Method, md)
	}
	return sd
}

func (b *builder) enum(fl *File, scope string, e *Enum) *descriptorpb.EnumDescriptorProto {
	ed := &descriptorpb.EnumDescriptorProto{Name: proto.String(e.Name)}
	full := qual(scope, e.Name)
	allowAlias := false
	var nums []int64
	var names []string
	var reserved [][2]int64
	var reservedNames []string
	for _, x := range e.Body {
		switch x := x.(type) {
		case *EnumVal:
			if x.Number > math.MaxInt32 || x.Number < math.MinInt32 {
				b.rej("enum-value-range", "enum value %s = %d is outside int32", x.Name, x.Number)
			}
			vd := &descriptorpb.EnumValueDescriptorProto{Name: proto.String(x.Name), Number: proto.Int32(int32(x.Number))}
			for _, o := range x.Opts {
				if o.Name == "deprecated" {
					if vd.Options == nil {
						vd.Options = &descriptorpb.EnumValueOptions{}
					}
					vd.Options.Deprecated = b.boolOpt(o)
				} else {
					b.unk("enum value option %s", o.Name)
				}
			}
			ed.Value = append(ed.Value, vd)
			nums = append(nums, x.Number)
			names = append(names, x.Name)
		case *Option:
			switch x.Name {
			case "allow_alias":
				if v := b.boolOpt(*x); v != nil {
					allowAlias = *v
					if ed.Options == nil {
						ed.Options = &descriptorpb.EnumOptions{}
					}
					ed.Options.AllowAlias = v
				}
			case "deprecated":
				if ed.Options == nil {
					ed.Options = &descriptorpb.EnumOptions{}
				}
				ed.Options.Deprecated = b.boolOpt(*x)
			default:
				if isFeature(x.Name) {
					if ed.Options == nil {
						ed.Options = &descriptorpb.EnumOptions{}
					}
					fs := b.cur
					b.applyFeature(fl, *x, "enum", full, &fs, &ed.Options.Features)
					continue
				}
				b.unk("enum option %s", x.Name)
			}
		case *Reserved:
			for _, r := range x.Ranges {
				end := r[1]
				if end == Max {
					end = math.MaxInt32
				}
				if r[0] > end {
					b.rej("reserved-range-inverted", "enum %s: reserved range %d to %d", full, r[0], end)
				}
				reserved = append(reserved, [2]int64{r[0], end})
				ed.ReservedRange = append(ed.ReservedRange, &descriptorpb.EnumDescriptorProto_EnumReservedRange{Start: proto.Int32(int32(r[0])), End: proto.Int32(int32(end))})
			}
			for _, n := range x.Names {
				reservedNames = append(reservedNames, n)
				ed.ReservedName = append(ed.ReservedName, n)
			}
		}
	}
	if len(nums) == 0 {
		b.rej("enum-empty", "enum %s has no values", full)
		return ed
	}
	open := !b.closed[full]
	if open && nums[0] != 0 {
		b.rej("enum-first-nonzero", "first value of open enum %s is %d", full, nums[0])
	}
	dup := false
	for i := range nums {
		for j := 0; j < i; j++ {
			if nums[i] == nums[j] {
				dup = true
			}
		}
	}
	if dup && !allowAlias {
		b.rej("enum-duplicate-number", "enum %s uses a number twice without allow_alias", full)
	}
	if allowAlias && !dup {
		b.rej("enum-alias-without-duplicate", "enum %s sets allow_alias but has no aliases", full)
	}
	for i, a := range reserved {
		for j := 0; j < i; j++ {
			if a[0] <= reserved[j][1] && reserved[j][0] <= a[1] {
				b.rej("reserved-overlap", "enum %s: reserved ranges overlap", full)
			}
		}
		for k, n := range nums {
			if n >= a[0] && n <= a[1] {
				b.rej("reserved-number-used", "enum %s: value %s uses reserved number %d", full, names[k], n)
			}
		}
	}
	for i, rn := range reservedNames {
		for j := 0; j < i; j++ {
			if rn == reservedNames[j] {
				b.rej("reserved-name-duplicate", "enum %s: name %q reserved twice", full, rn)
			}
		}
		for _, n := range names {
			if n == rn {
				b.rej("reserved-name-used", "enum %s: value %s uses a reserved name", full, n)
			}
		}
	}
	return ed
}

const maxTag = 536870911

func (b *builder) msg(fl *File, scope string, m *Msg) *descriptorpb.DescriptorProto {
	md := &descriptorpb.DescriptorProto{Name: proto.String(m.Name)}
	full := qual(scope, m.Name)
	type fieldRec struct {
		name string
		num  int64
		json string
		def  string
		cust bool
	}
	var fields []fieldRec
	var reserved, extRanges [][2]int64
	var reservedNames []string
	declNames := map[string]bool{} // full names declared by the extension ranges of this message
	var proto3Opt []*descriptorpb.FieldDescriptorProto
	saved := b.cur
	defer func() { b.cur = saved }()
	for _, x := range m.Body {
		if o, ok := x.(*Option); ok && isFeature(o.Name) {
			if md.Options == nil {
				md.Options = &descriptorpb.MessageOptions{}
			}
			b.applyFeature(fl, *o, "message", full, &b.cur, &md.Options.Features)
		}
	}
	addField := func(x *Field, oneof *int32) {
		fdp := b.field(fl, full, x, "", oneof, &md.NestedType)
		md.Field = append(md.Field, fdp)
		rec := fieldRec{name: fdp.GetName(), num: x.Number, json: fdp.GetJsonName(), def: JSONName(fdp.GetName())}
		for _, o := range x.Opts {
			if o.Name == "json_name" {
				rec.cust = true
			}
		}
		fields = append(fields, rec)
		if fl.Syntax == "proto3" && x.Label == "optional" && oneof == nil {
			proto3Opt = append(proto3Opt, fdp)
		}
	}
	for _, x := range m.Body {
		switch x := x.(type) {
		case *Field:
			addField(x, nil)
		case *Oneof:
			idx := int32(len(md.OneofDecl))
			od := &descriptorpb.OneofDescriptorProto{Name: proto.String(x.Name)}
			for _, o := range x.Opts {
				if isFeature(o.Name) {
					fs := b.cur
					var sink *descriptorpb.FeatureSet
					b.applyFeature(fl, o, "oneof", qual(full, x.Name), &fs, &sink)
					b.unk("[hard] feature on a oneof")
					continue
				}
				b.unk("oneof option %s", o.Name)
			}
			md.OneofDecl = append(md.OneofDecl, od)
			if len(x.Fields) == 0 {
				b.rej("oneof-empty", "oneof %s.%s has no fields", full, x.Name)
			}
			for _, fd := range x.Fields {
				if fd.Label != "" {
					b.rej("oneof-field-label", "field %s in oneof %s has a label", fd.Name, x.Name)
				}
				if fd.Map != nil {
					b.rej("oneof-map-field", "map field %s in oneof %s", fd.Name, x.Name)
				}
				addField(fd, &idx)
			}
		case *Msg:
			md.NestedType = append(md.NestedType, b.msg(fl, full, x))
		case *Enum:
			md.EnumType = append(md.EnumType, b.enum(fl, full, x))
		case *ExtBlock:
			for _, fd := range x.Fields {
				md.Extension = append(md.Extension, b.field(fl, full, fd, x.Extendee, nil, &md.NestedType))
			}
		case *Reserved:
			for _, r := range x.Ranges {
				end := r[1]
				if end == Max {
					end = maxTag
				}
				if r[0] > end {
					b.rej("reserved-range-inverted", "message %s: reserved range %d to %d", full, r[0], end)
				}
				if r[0] < 1 || end > maxTag {
					b.rej("reserved-range-bounds", "message %s: reserved range %d to %d out of bounds", full, r[0], end)
				}
				reserved = append(reserved, [2]int64{r[0], end})
				md.ReservedRange = append(md.ReservedRange, &descriptorpb.DescriptorProto_ReservedRange{Start: proto.Int32(int32(r[0])), End: proto.Int32(int32(end + 1))})
			}
			for _, n := range x.Names {
				reservedNames = append(reservedNames, n)
				md.ReservedName = append(md.ReservedName, n)
			}
		case *ExtRange:
			if fl.Syntax == "proto3" {
				b.rej("extension-range-proto3", "message %s: extension ranges are not allowed in proto3", full)
			}
			var ro *descriptorpb.ExtensionRangeOptions
			for _, o := range x.Opts {
				b.unk("extension range option %s", o.Name)
			}
			if x.Verification != "" || len(x.Decls) > 0 {
				ro = &descriptorpb.ExtensionRangeOptions{}
				switch x.Verification {
				case "":
				case "DECLARATION":
					ro.Verification = descriptorpb.ExtensionRangeOptions_DECLARATION.Enum()
				case "UNVERIFIED":
					ro.Verification = descriptorpb.ExtensionRangeOptions_UNVERIFIED.Enum()
					if len(x.Decls) > 0 {
						b.rej("extension-declaration-unverified", "message %s: an extension range marked UNVERIFIED has declarations", full)
					}
				default:
					b.rej("option-enum-value", "message %s: verification = %s", full, x.Verification)
				}
				for _, d := range x.Decls {
					dp := &descriptorpb.ExtensionRangeOptions_Declaration{Number: proto.Int32(int32(d.Number))}
					if d.FullName != "" {
						dp.FullName = proto.String(d.FullName)
					}
					if d.Type != "" {
						dp.Type = proto.String(d.Type)
					}
					if d.Reserved {
						dp.Reserved = proto.Bool(true)
					}
					if d.Repeated {
						dp.Repeated = proto.Bool(true)
					}
					ro.Declaration = append(ro.Declaration, dp)
				}
				if fl.Syntax == "2023" {
					b.unk("extension declarations in editions")
				}
			}
			// protoc's ValidateExtensionDeclaration, once per range of the statement
			for _, r := range x.Ranges {
				end := r[1]
				if end == Max {
					end = maxTag
				}
				nums := map[int64]bool{}
				for _, d := range x.Decls {
					if d.Number < r[0] || d.Number > end {
						b.rej("extension-declaration-number-outside", "message %s: declaration number %d is not in the extension range %d to %d", full, d.Number, r[0], end)
					}
					if nums[d.Number] {
						b.rej("extension-declaration-number-twice", "message %s: extension number %d is declared twice", full, d.Number)
					}
					nums[d.Number] = true
					if d.FullName == "" || d.Type == "" {
						if (d.FullName == "") != (d.Type == "") || !d.Reserved {
							b.rej("extension-declaration-incomplete", "message %s: declaration of %d needs both full_name and type", full, d.Number)
						}
						continue
					}
					if declNames[d.FullName] {
						b.rej("extension-declaration-name-twice", "message %s: extension name %s is declared twice", full, d.FullName)
					}
					declNames[d.FullName] = true
					if !validDeclSymbol(d.FullName) {
						b.rej("extension-declaration-name-form", "message %s: declared full_name %q is not a fully-qualified name with a leading dot", full, d.FullName)
					}
					if _, scalar := scalarTypes[d.Type]; !scalar && !validDeclSymbol(d.Type) {
						b.rej("extension-declaration-type-form", "message %s: declared type %q is neither a scalar type nor a fully-qualified name with a leading dot", full, d.Type)
					}
				}
			}
			for _, r := range x.Ranges {
				end := r[1]
				if end == Max {
					end = maxTag
				}
				if r[0] > end {
					b.rej("extension-range-inverted", "message %s: extension range %d to %d", full, r[0], end)
				}
				if r[0] < 1 || end > maxTag {
					b.rej("extension-range-bounds", "message %s: extension range %d to %d out of bounds", full, r[0], end)
				}
				extRanges = append(extRanges, [2]int64{r[0], end})
				md.ExtensionRange = append(md.ExtensionRange, &descriptorpb.DescriptorProto_ExtensionRange{Start: proto.Int32(int32(r[0])), End: proto.Int32(int32(end + 1)), Options: ro})
			}
		case *Option:
			switch x.Name {
			case "deprecated":
				if md.Options == nil {
					md.Options = &descriptorpb.MessageOptions{}
				}
				md.Options.Deprecated = b.boolOpt(*x)
			case "message_set_wire_format":
				b.unk("message_set_wire_format")
			default:
				if isFeature(x.Name) {
					continue // handled before the fields
				}
				b.unk("message option %s", x.Name)
			}
		}
	}
	// protoc's GenerateSyntheticOneofs: `_` is prepended unless the name already starts with one,
	// then `X` as often as needed to avoid the names of the message's fields and oneofs.
	if len(proto3Opt) > 0 {
		names := map[string]bool{}
		for _, f := range md.Field {
			names[f.GetName()] = true
		}
		for _, od := range md.OneofDecl {
			names[od.GetName()] = true
		}
		for _, fdp := range proto3Opt {
			name := fdp.GetName()
			if !strings.HasPrefix(name, "_") {
				name = "_" + name
			}
			for names[name] {
				name = "X" + name
			}
			names[name] = true
			for _, n := range md.NestedType {
				if n.GetName() == name {
					b.unk("synthetic oneof name %s collides with a nested type", name)
				}
			}
			for _, n := range md.EnumType {
				if n.GetName() == name {
					b.unk("synthetic oneof name %s collides with a nested enum", name)
				}
			}
			fdp.OneofIndex = proto.Int32(int32(len(md.OneofDecl)))
			md.OneofDecl = append(md.OneofDecl, &descriptorpb.OneofDescriptorProto{Name: proto.String(name)})
		}
	}
	// rule 6
	overlap := func(a, c [2]int64) bool { return a[0] <= c[1] && c[0] <= a[1] }
	for i, fr := range fields {
		for j := 0; j < i; j++ {
			if fields[j].num == fr.num {
				b.rej("field-number-duplicate", "message %s: fields %s and %s share number %d", full, fields[j].name, fr.name, fr.num)
			}
		}
		for _, r := range reserved {
			if fr.num >= r[0] && fr.num <= r[1] {
				b.rej("field-number-reserved", "message %s: field %s uses reserved number %d", full, fr.name, fr.num)
			}
		}
		for _, r := range extRanges {
			if fr.num >= r[0] && fr.num <= r[1] {
				b.rej("field-number-in-extension-range", "message %s: field %s uses number %d inside an extension range", full, fr.name, fr.num)
			}
		}
		for _, n := range reservedNames {
			if n == fr.name {
				b.rej("field-name-reserved", "message %s: field %s uses a reserved name", full, fr.name)
			}
		}
	}
	for i, r := range reserved {
		for j := 0; j < i; j++ {
			if overlap(r, reserved[j]) {
				b.rej("reserved-overlap", "message %s: reserved ranges overlap", full)
			}
		}
		for _, e := range extRanges {
			if overlap(r, e) {
				b.rej("reserved-extension-overlap", "message %s: a reserved range overlaps an extension range", full)
			}
		}
	}
	for i, r := range extRanges {
		for j := 0; j < i; j++ {
			if overlap(r, extRanges[j]) {
				b.rej("extension-range-overlap", "message %s: extension ranges overlap", full)
			}
		}
	}
	for i, n := range reservedNames {
		for j := 0; j < i; j++ {
			if n == reservedNames[j] {
				b.rej("reserved-name-duplicate", "message %s: name %q reserved twice", full, n)
			}
		}
	}
	// rule 9: JSON names
	for i, fr := range fields {
		for j := 0; j < i; j++ {
			o := fields[j]
			// protoc checks twice: the default names of all fields against each other
			// (an error unless the file is proto2), then the effective names, where a
			// clash that involves a custom json_name is always an error
			if fr.def == o.def && b.cur.json == "ALLOW" {
				b.rej("json-name-conflict", "message %s: fields %s and %s have the same default JSON name %q", full, o.name, fr.name, fr.def)
			}
			if fr.json == o.json && (fr.cust || o.cust) {
				b.rej("json-name-conflict-custom", "message %s: fields %s and %s have the same JSON name %q", full, o.name, fr.name, fr.json)
			}
		}
	}
	return md
}

func (b *builder) field(fl *File, scope string, x *Field, extendee string, oneof *int32, nested *[]*descriptorpb.DescriptorProto) *descriptorpb.FieldDescriptorProto {
	name := x.Name
	if x.Group != nil {
		name = strings.ToLower(x.Group.Name)
	}
	full := qual(scope, name)
	fd := &descriptorpb.FieldDescriptorProto{Name: proto.String(name), Number: proto.Int32(int32(x.Number)), JsonName: proto.String(JSONName(name))}
	isExt := extendee != ""
	mapValEnum := "" // full name of a map field's enum value type
	// rule 2
	switch {
	case x.Number < 1 || x.Number > maxTag:
		b.rej("field-number-range", "field %s: number %d out of range", full, x.Number)
	case x.Number >= 19000 && x.Number <= 19999:
		b.rej("field-number-reserved-range", "field %s: number %d is in the reserved range 19000-19999", full, x.Number)
	}
	// rule 3: labels
	label := x.Label
	switch {
	case x.Map != nil:
		if label != "" {
			b.rej("map-field-label", "map field %s has a label", full)
		}
		if isExt {
			b.rej("map-extension", "map field %s is an extension", full)
		}
		fd.Label = descriptorpb.FieldDescriptorProto_LABEL_REPEATED.Enum()
	case oneof != nil:
		fd.Label = descriptorpb.FieldDescriptorProto_LABEL_OPTIONAL.Enum()
		fd.OneofIndex = proto.Int32(*oneof)
	default:
		switch fl.Syntax {
		case "proto2", "":
			if label == "" {
				b.rej("label-missing", "field %s has no label (proto2)", full)
			}
		case "proto3":
			if label == "required" {
				b.rej("label-required-proto3", "field %s is required (proto3)", full)
			}
			if label == "optional" {
				fd.Proto3Optional = proto.Bool(true)
			}
		default:
			if label == "optional" || label == "required" {
				b.rej("label-in-editions", "field %s has label %s (editions)", full, label)
			}
		}
		switch label {
		case "required":
			fd.Label = descriptorpb.FieldDescriptorProto_LABEL_REQUIRED.Enum()
		case "repeated":
			fd.Label = descriptorpb.FieldDescriptorProto_LABEL_REPEATED.Enum()
		default:
			fd.Label = descriptorpb.FieldDescriptorProto_LABEL_OPTIONAL.Enum()
		}
	}
	if isExt {
		if label == "required" {
			b.rej("extension-required", "extension %s is required", full)
		}
		sym, ok := b.t.Lookup(fl.Name, extendee, full, false)
		switch {
		case !ok:
			b.rej("unresolved-extendee", "extension %s: extendee %s does not resolve", full, extendee)
		case sym.Kind != KMessage:
			b.rej("extendee-not-message", "extension %s: extendee %s is %s", full, extendee, sym.Kind)
		default:
			fd.Extendee = proto.String("." + sym.Name)
			m, _ := sym.Node.(*Msg)
			inRange := false
			if m != nil {
				for _, d := range m.Body {
					if er, ok := d.(*ExtRange); ok {
						for _, r := range er.Ranges {
							end := r[1]
							if end == Max {
								end = maxTag
							}
							if x.Number >= r[0] && x.Number <= end {
								inRange = true
							}
						}
					}
				}
			}
			if !inRange {
				b.rej("extension-number-not-in-range", "extension %s: number %d is not in an extension range of %s", full, x.Number, sym.Name)
			}
			if fl.Syntax == "proto3" {
				b.rej("extension-proto3", "extension %s of %s in a proto3 file", full, sym.Name)
			}
			// rule 13: unique (extendee, number)
			for _, g := range b.ws.Files {
				b.eachExt(g, func(gscope string, blk *ExtBlock, y *Field) {
					if y == x || y.Number != x.Number {
						return
					}
					yn := y.Name
					if y.Group != nil {
						yn = strings.ToLower(y.Group.Name)
					}
					s2, ok := b.t.Lookup(g.Name, blk.Extendee, qual(gscope, yn), false)
					if ok && s2.Name == sym.Name {
						b.rej("extension-number-duplicate", "extensions %s and %s both extend %s with number %d", full, qual(gscope, yn), sym.Name, x.Number)
					}
				})
			}
		}
	}
	// type
	isString, isRepeatable := false, false
	var enumNode *Enum
	kind := KNone
	switch {
	case x.Group != nil:
		if fl.Syntax != "proto2" && fl.Syntax != "" {
			b.rej("group-not-proto2", "group %s outside proto2", full)
		}
		if c := x.Group.Name[0]; c < 'A' || c > 'Z' {
			b.rej("group-name-lowercase", "group name %s must start with a capital letter", x.Group.Name)
		}
		fd.Type = descriptorpb.FieldDescriptorProto_TYPE_GROUP.Enum()
		fd.TypeName = proto.String("." + qual(scope, x.Group.Name))
		*nested = append(*nested, b.msg(fl, scope, x.Group))
		kind = KMessage
	case x.Map != nil:
		key, val := x.Map[0], x.Map[1]
		kt, ok := scalarTypes[key]
		if !ok || key == "float" || key == "double" || key == "bytes" {
			b.rej("map-key-type", "map field %s: key type %s", full, key)
		}
		entryName := MapEntryName(x.Name)
		entry := &descriptorpb.DescriptorProto{Name: proto.String(entryName), Options: &descriptorpb.MessageOptions{MapEntry: proto.Bool(true)}}
		kf := &descriptorpb.FieldDescriptorProto{Name: proto.String("key"), Number: proto.Int32(1), Label: descriptorpb.FieldDescriptorProto_LABEL_OPTIONAL.Enum(), Type: kt.Enum(), JsonName: proto.String("key")}
		vf := &descriptorpb.FieldDescriptorProto{Name: proto.String("value"), Number: proto.Int32(2), Label: descriptorpb.FieldDescriptorProto_LABEL_OPTIONAL.Enum(), JsonName: proto.String("value")}
		if vt, ok := scalarTypes[val]; ok {
			vf.Type = vt.Enum()
		} else {
			sym, ok := b.t.Lookup(fl.Name, val, qual(qual(scope, entryName), "value"), true)
			switch {
			case !ok:
				b.rej("unresolved-type", "map field %s: value type %s does not resolve", full, val)
			case sym.Kind == KMessage:
				vf.Type = descriptorpb.FieldDescriptorProto_TYPE_MESSAGE.Enum()
				vf.TypeName = proto.String("." + sym.Name)
				if _, isMapEntry := sym.Node.(*Field); isMapEntry {
					b.unk("map value type is a synthetic message")
				}
			case sym.Kind != KEnum:
				b.rej("type-not-a-type", "map field %s: value type %s is %s", full, val, sym.Kind)
			default:
				vf.Type = descriptorpb.FieldDescriptorProto_TYPE_ENUM.Enum()
				vf.TypeName = proto.String("." + sym.Name)
				mapValEnum = sym.Name
				if e, _ := sym.Node.(*Enum); e != nil {
					b.checkEnumUse(fl, full, sym, e)
					for _, d := range e.Body {
						if ev, ok := d.(*EnumVal); ok {
							if ev.Number != 0 {
								b.rej("map-enum-first-nonzero", "map field %s: first value of enum %s is %d, not 0", full, sym.Name, ev.Number)
							}
							break
						}
					}
				}
			}
		}
		entry.Field = []*descriptorpb.FieldDescriptorProto{kf, vf}
		*nested = append(*nested, entry)
		fd.Type = descriptorpb.FieldDescriptorProto_TYPE_MESSAGE.Enum()
		fd.TypeName = proto.String("." + qual(scope, entryName))
		kind = KMessage
	default:
		if st, ok := scalarTypes[x.Type]; ok {
			fd.Type = st.Enum()
			isString = x.Type == "string" || x.Type == "bytes"
			isRepeatable = !isString
		} else {
			sym, ok := b.t.Lookup(fl.Name, x.Type, full, true)
			switch {
			case !ok:
				b.rej("unresolved-type", "field %s: type %s does not resolve", full, x.Type)
			case sym.Kind == KMessage:
				fd.Type = descriptorpb.FieldDescriptorProto_TYPE_MESSAGE.Enum()
				fd.TypeName = proto.String("." + sym.Name)
				kind = KMessage
				if fdn, isSynth := sym.Node.(*Field); isSynth && fdn.Map != nil {
					b.unk("reference to a map entry message")
				}
			case sym.Kind != KEnum:
				b.rej("type-not-a-type", "field %s: %s is %s, not a message or enum", full, x.Type, sym.Kind)
			default:
				fd.Type = descriptorpb.FieldDescriptorProto_TYPE_ENUM.Enum()
				fd.TypeName = proto.String("." + sym.Name)
				kind = KEnum
				isRepeatable = true
				enumNode, _ = sym.Node.(*Enum)
				if enumNode != nil {
					if fd.GetLabel() != descriptorpb.FieldDescriptorProto_LABEL_REPEATED && oneof == nil && x.Label != "optional" {
						b.checkEnumUse(fl, full, sym, enumNode)
					} else if def := b.ws.File(sym.File); fl.Syntax == "proto3" && def != nil && (def.Syntax == "proto2" || def.Syntax == "") {
						// protoc's ValidateProto3Field applies to every field of a proto3 file, whatever
						// its label (the Go runtime rejects these descriptors as well)
						b.rej("proto3-field-closed-enum", "proto3 field %s uses proto2 enum %s", full, sym.Name)
					}
				}
			}
		}
	}
	// options
	var fo *descriptorpb.FieldOptions
	opt := func() *descriptorpb.FieldOptions {
		if fo == nil {
			fo = &descriptorpb.FieldOptions{}
		}
		return fo
	}
	seen := map[string]bool{}
	// editions features set on the field itself, then the rules that depend on the resolved set
	fs := b.cur
	var ffeat *descriptorpb.FeatureSet
	isRepeated := fd.GetLabel() == descriptorpb.FieldDescriptorProto_LABEL_REPEATED
	for _, o := range x.Opts {
		if !isFeature(o.Name) {
			continue
		}
		if !b.applyFeature(fl, o, "field", full, &fs, &ffeat) {
			continue
		}
		switch o.Name {
		case "features.field_presence":
			switch {
			case isRepeated:
				b.rej("feature-presence-on-repeated", "field %s: repeated fields cannot specify field presence", full)
			case oneof != nil:
				b.rej("feature-presence-in-oneof", "field %s: oneof fields cannot specify field presence", full)
			case isExt:
				b.unk("[hard] field presence on an extension")
			case o.Value == "IMPLICIT" && kind == KMessage:
				b.rej("feature-implicit-message", "field %s: message fields cannot have implicit presence", full)
			}
		case "features.repeated_field_encoding":
			switch {
			case !isRepeated: // (a map field is a repeated field of a type that cannot be packed)
				b.rej("feature-encoding-on-singular", "field %s: only repeated fields can specify repeated field encoding", full)
			case !isRepeatable && o.Value == "PACKED":
				b.rej("feature-packed-not-packable", "field %s: only repeated primitive fields can be packed", full)
			case !isRepeatable:
				b.unk("[hard] EXPANDED encoding on a field that cannot be packed")
			}
		case "features.utf8_validation":
			if x.Map != nil {
				b.unk("[hard] utf8_validation on a map field")
			} else if x.Type != "string" {
				b.rej("feature-utf8-on-non-string", "field %s: only string fields can specify utf8 validation", full)
			}
		case "features.message_encoding":
			if x.Map != nil {
				b.unk("[hard] message_encoding on a map field")
			} else if kind != KMessage {
				b.rej("feature-encoding-on-non-message", "field %s: only message fields can specify message encoding", full)
			}
		}
	}
	if !featureProtoEmpty(ffeat) {
		opt().Features = ffeat
	}
	implicit := fl.Syntax == "2023" && fs.presence == "IMPLICIT" && !isRepeated && oneof == nil && kind != KMessage && !isExt
	if implicit && kind == KEnum && enumNode != nil {
		if tn := strings.TrimPrefix(fd.GetTypeName(), "."); b.closed[tn] {
			b.rej("implicit-field-closed-enum", "field %s has implicit presence and uses closed enum %s", full, tn)
		}
	}
	// The generated value field of a map entry inherits the map field's features; protoc checks
	// "implicit presence enum fields must always be open" on it before it skips generated fields.
	if x.Map != nil && mapValEnum != "" && fl.Syntax == "2023" && fs.presence == "IMPLICIT" && b.closed[mapValEnum] {
		b.rej("implicit-field-closed-enum", "map field %s: the value field has implicit presence and uses closed enum %s", full, mapValEnum)
	}
	for _, o := range x.Opts {
		if isFeature(o.Name) {
			continue
		}
		if o.Name == "default" && implicit {
			b.rej("default-on-implicit", "field %s: default value on a field with implicit presence", full)
		}
		if seen[o.Name] && !strings.HasPrefix(o.Name, "(") && o.Name != "targets" { // targets is repeated
			b.rej("option-set-twice", "field %s: option %s set twice", full, o.Name)
		}
		seen[o.Name] = true
		switch o.Name {
		case "deprecated":
			opt().Deprecated = b.boolOpt(o)
		case "lazy":
			opt().Lazy = b.boolOpt(o)
			if kind != KMessage {
				b.rej("lazy-on-non-message", "field %s: lazy on a field that is not a message", full)
			}
		case "packed":
			v := b.boolOpt(o)
			opt().Packed = v
			// (protoc tests the option's value: `packed = false` is accepted anywhere)
			if v != nil && *v && (fd.GetLabel() != descriptorpb.FieldDescriptorProto_LABEL_REPEATED || !isRepeatable || x.Map != nil) {
				b.rej("packed-not-allowed", "field %s: packed on a field that is not a repeated primitive", full)
			}
			if fl.Syntax == "2023" {
				b.rej("packed-in-editions", "field %s: packed option in editions", full)
			}
		case "ctype":
			v, ok := descriptorpb.FieldOptions_CType_value[o.Value]
			if !ok {
				b.rej("option-enum-value", "field %s: ctype = %s", full, o.Value)
			}
			opt().Ctype = descriptorpb.FieldOptions_CType(v).Enum()
			if fl.Syntax == "2023" {
				b.unk("ctype in editions")
			}
		case "json_name":
			s, ok := strLit(o.Value)
			if !ok {
				if _, err := strconv.ParseFloat(o.Value, 64); err == nil || o.Value == "true" || o.Value == "false" {
					b.rej("option-type", "field %s: json_name = %s is not a string", full, o.Value)
				} else {
					b.unk("json_name literal %s", o.Value)
				}
			}
			// protoc's descriptor builder complains only when the value differs from the default
			// JSON name (descriptors it produced carry the default on every field)
			if isExt && s == "" {
				b.unk("empty json_name on an extension")
			} else if isExt && s != JSONName(name) {
				b.rej("json-name-on-extension", "extension %s has json_name", full)
			}
			if strings.HasPrefix(s, "[") && strings.HasSuffix(s, "]") {
				b.rej("json-name-bracketed", "field %s: json_name %q looks like an extension name", full, s)
			}
			fd.JsonName = proto.String(s)
		case "default":
			b.defaultValue(fl, full, x, fd, kind, enumNode, o.Value)
		default:
			b.unk("field option %s", o.Name)
		}
	}
	fd.Options = fo
	if isExt {
		b.checkExtensionDeclaration(fl, full, extendee, x, fd)
	}
	return fd
}

// validDeclSymbol: a leading dot followed by dot-separated identifiers (protoc's
// ValidateSymbolForDeclaration).
func validDeclSymbol(s string) bool {
	if !strings.HasPrefix(s, ".") {
		return false
	}
	for _, part := range strings.Split(s[1:], ".") {
		if part == "" {
			return false
		}
		for i, c := range part {
			if !(c == '_' || c >= 'a' && c <= 'z' || c >= 'A' && c <= 'Z' || i > 0 && c >= '0' && c <= '9') {
				return false
			}
		}
	}
	return true
}

// checkExtensionDeclaration is protoc's CheckExtensionDeclaration: an extension whose number lies
// in a range that has declarations (or verification = DECLARATION) must match its declaration.
func (b *builder) checkExtensionDeclaration(fl *File, full, extendee string, x *Field, fd *descriptorpb.FieldDescriptorProto) {
	sym, ok := b.t.Lookup(fl.Name, extendee, full, false)
	if !ok || sym.Kind != KMessage {
		return
	}
	m, _ := sym.Node.(*Msg)
	if m == nil {
		return
	}
	var er *ExtRange
find:
	for _, d := range m.Body {
		if r, ok := d.(*ExtRange); ok {
			for _, rg := range r.Ranges {
				end := rg[1]
				if end == Max {
					end = maxTag
				}
				if x.Number >= rg[0] && x.Number <= end {
					er = r
					break find
				}
			}
		}
	}
	if er == nil {
		return
	}
	for _, d := range er.Decls {
		if d.Number != x.Number {
			continue
		}
		if d.Reserved {
			b.rej("extension-declaration-reserved", "extension %s uses number %d, which %s declares reserved", full, x.Number, sym.Name)
			return
		}
		if d.FullName != "."+full {
			b.rej("extension-declaration-name-mismatch", "extension %s has number %d, which %s declares as %s", full, x.Number, sym.Name, d.FullName)
		}
		actual := fd.GetTypeName()
		if actual == "" {
			for n, t := range scalarTypes {
				if t == fd.GetType() {
					actual = n
				}
			}
		}
		if actual != d.Type {
			b.rej("extension-declaration-type-mismatch", "extension %s has type %s, %s declares %s", full, actual, sym.Name, d.Type)
		}
		if (fd.GetLabel() == descriptorpb.FieldDescriptorProto_LABEL_REPEATED) != d.Repeated {
			b.rej("extension-declaration-repeated-mismatch", "extension %s: repeated differs from the declaration in %s", full, sym.Name)
		}
		return
	}
	if len(er.Decls) > 0 || er.Verification == "DECLARATION" {
		b.rej("extension-declaration-missing", "extension %s: number %d is not declared in %s", full, x.Number, sym.Name)
	}
}

// checkEnumUse applies "an implicit-presence (proto3) field may not use a closed (proto2) enum".
func (b *builder) checkEnumUse(fl *File, field string, sym Sym, e *Enum) {
	if fl.Syntax != "proto3" {
		return
	}
	if def := b.ws.File(sym.File); def != nil && (def.Syntax == "proto2" || def.Syntax == "") {
		b.rej("proto3-field-closed-enum", "proto3 field %s uses proto2 enum %s", field, sym.Name)
	}
}

func (b *builder) eachExt(fl *File, f func(scope string, blk *ExtBlock, x *Field)) {
	var inMsg func(scope string, m *Msg)
	inMsg = func(scope string, m *Msg) {
		full := qual(scope, m.Name)
		for _, d := range m.Body {
			switch d := d.(type) {
			case *ExtBlock:
				for _, x := range d.Fields {
					f(full, d, x)
				}
			case *Msg:
				inMsg(full, d)
			case *Field:
				if d.Group != nil {
					inMsg(full, d.Group)
				}
			}
		}
	}
	for _, d := range fl.Decls {
		switch d := d.(type) {
		case *ExtBlock:
			for _, x := range d.Fields {
				f(fl.Package, d, x)
			}
		case *Msg:
			inMsg(fl.Package, d)
		}
	}
}

func (b *builder) defaultValue(fl *File, full string, x *Field, fd *descriptorpb.FieldDescriptorProto, kind Kind, e *Enum, v string) {
	if fl.Syntax == "proto3" {
		b.rej("default-in-proto3", "field %s: default value in proto3", full)
	}
	if fd.GetLabel() == descriptorpb.FieldDescriptorProto_LABEL_REPEATED {
		b.rej("default-on-repeated", "field %s: default value on a repeated field", full)
	}
	if kind == KMessage {
		b.rej("default-on-message", "field %s: default value on a message field", full)
		return
	}
	isInt := func() (int64, uint64, bool, bool) { // signed value, unsigned value, negative, ok
		s := v
		neg := strings.HasPrefix(s, "-")
		if neg {
			s = s[1:]
		}
		u, err := strconv.ParseUint(s, 0, 64)
		if err != nil {
			return 0, 0, false, false
		}
		if neg {
			if u > 1<<63 {
				return 0, 0, true, false
			}
			return -int64(u), 0, true, true
		}
		return int64(u), u, false, true
	}
	_, isStr := strLit(v)
	isIdent := v != "" && (v[0] >= 'a' && v[0] <= 'z' || v[0] >= 'A' && v[0] <= 'Z' || v[0] == '_')
	if kind == KEnum {
		if !isIdent {
			b.rej("default-enum-not-identifier", "field %s: enum default %s is not an identifier", full, v)
			return
		}
		if e != nil {
			for _, d := range e.Body {
				if ev, ok := d.(*EnumVal); ok && ev.Name == v {
					fd.DefaultValue = proto.String(v)
					return
				}
			}
			b.rej("default-enum-unknown-value", "field %s: enum has no value %s", full, v)
		}
		return
	}
	switch x.Type {
	case "int32", "sint32", "sfixed32", "int64", "sint64", "sfixed64":
		s, u, neg, ok := isInt()
		if !ok {
			b.rej("default-type", "field %s: default %s is not an integer", full, v)
			return
		}
		bits := 64
		if strings.HasSuffix(x.Type, "32") {
			bits = 32
		}
		if bits == 32 && (s > math.MaxInt32 || s < math.MinInt32 || !neg && u > math.MaxInt32) || bits == 64 && !neg && u > math.MaxInt64 {
			b.rej("default-range", "field %s: default %s out of range for %s", full, v, x.Type)
			return
		}
		fd.DefaultValue = proto.String(strconv.FormatInt(s, 10))
	case "uint32", "fixed32", "uint64", "fixed64":
		_, u, neg, ok := isInt()
		if !ok && !neg {
			b.rej("default-type", "field %s: default %s is not an integer", full, v)
			return
		}
		if neg {
			b.rej("default-range", "field %s: negative default %s for %s", full, v, x.Type)
			return
		}
		if strings.HasSuffix(x.Type, "32") && u > math.MaxUint32 {
			b.rej("default-range", "field %s: default %s out of range for %s", full, v, x.Type)
			return
		}
		fd.DefaultValue = proto.String(strconv.FormatUint(u, 10))
	case "bool":
		if v != "true" && v != "false" {
			b.rej("default-type", "field %s: default %s is not a bool", full, v)
			return
		}
		fd.DefaultValue = proto.String(v)
	case "string":
		s, ok := strLit(v)
		if !ok {
			if isStr {
				b.unk("string default with escapes")
			} else {
				b.rej("default-type", "field %s: default %s is not a string", full, v)
			}
			return
		}
		fd.DefaultValue = proto.String(s)
	case "bytes":
		s, ok := strLit(v)
		if !ok {
			if v != "" && (v[0] == '"' || v[0] == '\'') {
				b.unk("bytes default with escapes")
			} else {
				b.rej("default-type", "field %s: default %s is not a string", full, v)
			}
			return
		}
		fd.DefaultValue = proto.String(s)
	case "float", "double":
		if v == "true" || v == "false" || (v != "" && (v[0] == '"' || v[0] == '\'')) {
			b.rej("default-type", "field %s: default %s is not a number", full, v)
			return
		}
		if s, _, _, ok := isInt(); ok && s > -1000 && s < 1000 {
			fd.DefaultValue = proto.String(strconv.FormatInt(s, 10))
			return
		}
		b.unk("float default text for %s", v)
	}
}
