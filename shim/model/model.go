// Package model is G1 of DESIGN.md: an abstract source-level Protobuf schema with
// a printer (Print), a reference implementation of protoc's name resolution
// (Lookup, Appendix B), of its acceptance rules for the constructs the schema can
// express (Valid, Appendix A, three-valued) and of the descriptors protoc produces
// for an accepted schema (Build). Nothing here uses code of the repository.
package model

import (
	"fmt"
	"strings"
)

type Verdict int

const (
	Accept Verdict = iota
	Reject
	Unknown
)

func (v Verdict) String() string { return [...]string{"ACCEPT", "REJECT", "UNKNOWN"}[v] }

const Max = int64(-1) // the `max` keyword in ranges

type WS struct {
	Files []*File
	Notes []string // deviations applied, in order (for messages and signatures)
	// anchors into the base workspace, so that deviations find their targets after other
	// deviations renamed or moved things
	AM     *Msg
	AInner *Msg
	AME    *Enum
	AF     [3]*Field
	AX     *ExtBlock
	AS     *Svc
}

type File struct {
	Name    string
	Syntax  string // "proto2", "proto3", "2023", or "" for no syntax line
	Package string
	Imports []Import
	Options []Option
	Decls   []any // *Msg, *Enum, *ExtBlock, *Svc
	Raw     string // raw text appended verbatim; its presence makes the model abstain
}

type Import struct {
	Path string
	Kind string // "", "public", "weak"
}

// Option is one option statement or compact option: name as written (`deprecated`,
// `(a.b).c`, `features.field_presence`) and value as written.
type Option struct {
	Name  string
	Value string
}

type Msg struct {
	Name string
	Body []any // *Field, *Oneof, *Msg, *Enum, *ExtBlock, *Reserved, *ExtRange, *Option
}

type Field struct {
	Label  string // "optional", "required", "repeated", ""
	Type   string // scalar keyword or type reference as written ("" for map and group)
	Name   string
	Number int64
	Opts   []Option
	Map    *[2]string // key and value type as written
	Group  *Msg       // group body; Group.Name is the (capitalised) group name
}

type Oneof struct {
	Name   string
	Fields []*Field
	Opts   []Option
}

type Enum struct {
	Name string
	Body []any // *EnumVal, *Reserved, *Option
}

type EnumVal struct {
	Name   string
	Number int64
	Opts   []Option
}

type Reserved struct {
	Ranges [][2]int64 // inclusive; end may be Max
	Names  []string
}

type ExtRange struct {
	Ranges [][2]int64
	Opts   []Option
	// extension declarations (ExtensionRangeOptions.declaration / .verification)
	Decls        []ExtDecl
	Verification string // "", "DECLARATION" or "UNVERIFIED"
}

// ExtDecl is one `declaration = { ... }` of an extension range; empty strings are absent fields.
type ExtDecl struct {
	Number   int64
	FullName string
	Type     string
	Reserved bool
	Repeated bool
}

// AllOpts lists the options of the range statement as they are printed.
func (d *ExtRange) AllOpts() []Option {
	out := append([]Option(nil), d.Opts...)
	if d.Verification != "" {
		out = append(out, Option{"verification", d.Verification})
	}
	for _, x := range d.Decls {
		parts := []string{fmt.Sprintf("number: %d", x.Number)}
		if x.FullName != "" {
			parts = append(parts, fmt.Sprintf("full_name: %q", x.FullName))
		}
		if x.Type != "" {
			parts = append(parts, fmt.Sprintf("type: %q", x.Type))
		}
		if x.Reserved {
			parts = append(parts, "reserved: true")
		}
		if x.Repeated {
			parts = append(parts, "repeated: true")
		}
		out = append(out, Option{"declaration", "{ " + strings.Join(parts, " ") + " }"})
	}
	return out
}

type ExtBlock struct {
	Extendee string
	Fields   []*Field
}

type Svc struct {
	Name    string
	Methods []*Method
	Opts    []Option
}

type Method struct {
	Name                string
	In, Out             string
	InStream, OutStream bool
	Opts                []Option
}

// ---- printing ----

func (ws *WS) Sources() map[string]string {
	out := map[string]string{}
	for _, f := range ws.Files {
		out[f.Name] = Print(f)
	}
	return out
}

func (ws *WS) Names() []string {
	var out []string
	for _, f := range ws.Files {
		out = append(out, f.Name)
	}
	return out
}

func (ws *WS) File(name string) *File {
	for _, f := range ws.Files {
		if f.Name == name {
			return f
		}
	}
	return nil
}

func (ws *WS) String() string {
	var b strings.Builder
	for _, f := range ws.Files {
		fmt.Fprintf(&b, "--- %s\n%s", f.Name, Print(f))
	}
	return b.String()
}

// printingEdition is set while an editions file is printed: reserved names are identifiers there.
var printingEdition bool

func Print(f *File) string {
	printingEdition = f.Syntax != "" && f.Syntax != "proto2" && f.Syntax != "proto3"
	var b strings.Builder
	switch f.Syntax {
	case "":
	case "proto2", "proto3":
		fmt.Fprintf(&b, "syntax = %q;\n", f.Syntax)
	default:
		fmt.Fprintf(&b, "edition = %q;\n", f.Syntax)
	}
	if f.Package != "" {
		fmt.Fprintf(&b, "package %s;\n", f.Package)
	}
	for _, im := range f.Imports {
		if im.Kind != "" {
			fmt.Fprintf(&b, "import %s %q;\n", im.Kind, im.Path)
		} else {
			fmt.Fprintf(&b, "import %q;\n", im.Path)
		}
	}
	for _, o := range f.Options {
		fmt.Fprintf(&b, "option %s = %s;\n", o.Name, o.Value)
	}
	for _, d := range f.Decls {
		printDecl(&b, d, "")
	}
	b.WriteString(f.Raw)
	return b.String()
}

func compact(opts []Option) string {
	if len(opts) == 0 {
		return ""
	}
	var parts []string
	for _, o := range opts {
		parts = append(parts, o.Name+" = "+o.Value)
	}
	return " [" + strings.Join(parts, ", ") + "]"
}

func rangesText(rs [][2]int64) string {
	var parts []string
	for _, r := range rs {
		switch {
		case r[1] == Max:
			parts = append(parts, fmt.Sprintf("%d to max", r[0]))
		case r[0] == r[1]:
			parts = append(parts, fmt.Sprint(r[0]))
		default:
			parts = append(parts, fmt.Sprintf("%d to %d", r[0], r[1]))
		}
	}
	return strings.Join(parts, ", ")
}

func printField(b *strings.Builder, f *Field, ind string) {
	label := f.Label
	if label != "" {
		label += " "
	}
	switch {
	case f.Group != nil:
		fmt.Fprintf(b, "%s%sgroup %s = %d%s {\n", ind, label, f.Group.Name, f.Number, compact(f.Opts))
		for _, d := range f.Group.Body {
			printDecl(b, d, ind+"  ")
		}
		fmt.Fprintf(b, "%s}\n", ind)
	case f.Map != nil:
		fmt.Fprintf(b, "%s%smap<%s, %s> %s = %d%s;\n", ind, label, f.Map[0], f.Map[1], f.Name, f.Number, compact(f.Opts))
	default:
		fmt.Fprintf(b, "%s%s%s %s = %d%s;\n", ind, label, f.Type, f.Name, f.Number, compact(f.Opts))
	}
}

func printDecl(b *strings.Builder, d any, ind string) {
	switch d := d.(type) {
	case *Msg:
		fmt.Fprintf(b, "%smessage %s {\n", ind, d.Name)
		for _, x := range d.Body {
			printDecl(b, x, ind+"  ")
		}
		fmt.Fprintf(b, "%s}\n", ind)
	case *Field:
		printField(b, d, ind)
	case *Oneof:
		fmt.Fprintf(b, "%soneof %s {\n", ind, d.Name)
		for _, o := range d.Opts {
			fmt.Fprintf(b, "%s  option %s = %s;\n", ind, o.Name, o.Value)
		}
		for _, f := range d.Fields {
			printField(b, f, ind+"  ")
		}
		fmt.Fprintf(b, "%s}\n", ind)
	case *Enum:
		fmt.Fprintf(b, "%senum %s {\n", ind, d.Name)
		for _, x := range d.Body {
			printDecl(b, x, ind+"  ")
		}
		fmt.Fprintf(b, "%s}\n", ind)
	case *EnumVal:
		fmt.Fprintf(b, "%s%s = %d%s;\n", ind, d.Name, d.Number, compact(d.Opts))
	case *Reserved:
		var parts []string
		if len(d.Ranges) > 0 {
			parts = append(parts, rangesText(d.Ranges))
		}
		for _, n := range d.Names {
			if printingEdition {
				parts = append(parts, n)
			} else {
				parts = append(parts, fmt.Sprintf("%q", n))
			}
		}
		fmt.Fprintf(b, "%sreserved %s;\n", ind, strings.Join(parts, ", "))
	case *ExtRange:
		fmt.Fprintf(b, "%sextensions %s%s;\n", ind, rangesText(d.Ranges), compact(d.AllOpts()))
	case *Option:
		fmt.Fprintf(b, "%soption %s = %s;\n", ind, d.Name, d.Value)
	case *ExtBlock:
		fmt.Fprintf(b, "%sextend %s {\n", ind, d.Extendee)
		for _, f := range d.Fields {
			printField(b, f, ind+"  ")
		}
		fmt.Fprintf(b, "%s}\n", ind)
	case *Svc:
		fmt.Fprintf(b, "%sservice %s {\n", ind, d.Name)
		for _, o := range d.Opts {
			fmt.Fprintf(b, "%s  option %s = %s;\n", ind, o.Name, o.Value)
		}
		for _, m := range d.Methods {
			in, out := m.In, m.Out
			if m.InStream {
				in = "stream " + in
			}
			if m.OutStream {
				out = "stream " + out
			}
			if len(m.Opts) == 0 {
				fmt.Fprintf(b, "%s  rpc %s(%s) returns (%s);\n", ind, m.Name, in, out)
			} else {
				fmt.Fprintf(b, "%s  rpc %s(%s) returns (%s) {\n", ind, m.Name, in, out)
				for _, o := range m.Opts {
					fmt.Fprintf(b, "%s    option %s = %s;\n", ind, o.Name, o.Value)
				}
				fmt.Fprintf(b, "%s  }\n", ind)
			}
		}
		fmt.Fprintf(b, "%s}\n", ind)
	default:
		panic(fmt.Sprintf("model: cannot print %T", d))
	}
}

// ---- base workspaces (Appendix I) ----

func f(label, typ, name string, num int64, opts ...Option) *Field {
	return &Field{Label: label, Type: typ, Name: name, Number: num, Opts: opts}
}

// Base returns the three-file base workspace with main.proto in the given syntax.
func Base(syntax string) *WS {
	pub := &File{Name: "pub.proto", Syntax: "proto3", Package: "a", Decls: []any{
		&Msg{Name: "P", Body: []any{f("", "int32", "x", 1)}},
		&Enum{Name: "PE", Body: []any{&EnumVal{Name: "PE0", Number: 0}}},
	}}
	dep := &File{Name: "dep.proto", Syntax: "proto2", Package: "a.b", Imports: []Import{{"pub.proto", "public"}}, Decls: []any{
		&Msg{Name: "D", Body: []any{
			f("optional", "int32", "v", 1),
			&Msg{Name: "N", Body: []any{f("optional", "int32", "w", 1)}},
			&Enum{Name: "NE", Body: []any{&EnumVal{Name: "NE0", Number: 0}, &EnumVal{Name: "NE1", Number: 1}}},
			&ExtRange{Ranges: [][2]int64{{100, 199}}},
		}},
		&Enum{Name: "E", Body: []any{&EnumVal{Name: "E0", Number: 0}, &EnumVal{Name: "E1", Number: 1}}},
	}}
	lab := "optional"
	f3 := "E"
	if syntax != "proto2" {
		lab = ""
	}
	if syntax == "proto3" {
		f3 = "PE"
	}
	m := &Msg{Name: "M", Body: []any{
		f(lab, "int32", "f1", 1),
		f(lab, "D", "f2", 2),
		f(lab, f3, "f3", 3),
		&Msg{Name: "Inner", Body: []any{f(lab, "int32", "i", 1)}},
		&Enum{Name: "ME", Body: []any{&EnumVal{Name: "ME0", Number: 0}, &EnumVal{Name: "ME1", Number: 1}}},
	}}
	main := &File{Name: "main.proto", Syntax: syntax, Package: "a.b.c", Imports: []Import{{"dep.proto", ""}}, Decls: []any{m}}
	if syntax != "proto3" {
		main.Decls = append(main.Decls, &ExtBlock{Extendee: "D", Fields: []*Field{f(lab, "int32", "x1", 100)}})
	}
	svc := &Svc{Name: "S", Methods: []*Method{{Name: "R", In: "M", Out: "D"}}}
	main.Decls = append(main.Decls, svc)
	ws := &WS{Files: []*File{pub, dep, main}, AM: m, AS: svc, AX: main.Ext()}
	ws.AF = [3]*Field{m.Body[0].(*Field), m.Body[1].(*Field), m.Body[2].(*Field)}
	ws.AInner = m.Body[3].(*Msg)
	ws.AME = m.Body[4].(*Enum)
	return ws
}

// Main returns main.proto of a base-derived workspace and its message M.
func (ws *WS) Main() *File { return ws.File("main.proto") }

func (fl *File) Msg(name string) *Msg {
	for _, d := range fl.Decls {
		if m, ok := d.(*Msg); ok && m.Name == name {
			return m
		}
	}
	return nil
}

func (m *Msg) Field(name string) *Field {
	for _, d := range m.Body {
		if fd, ok := d.(*Field); ok && fd.Name == name {
			return fd
		}
	}
	return nil
}

func (m *Msg) Enum(name string) *Enum {
	for _, d := range m.Body {
		if e, ok := d.(*Enum); ok && e.Name == name {
			return e
		}
	}
	return nil
}

func (fl *File) Ext() *ExtBlock {
	for _, d := range fl.Decls {
		if e, ok := d.(*ExtBlock); ok {
			return e
		}
	}
	return nil
}

func (fl *File) Svc() *Svc {
	for _, d := range fl.Decls {
		if s, ok := d.(*Svc); ok {
			return s
		}
	}
	return nil
}
