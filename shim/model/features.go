package model

import (
	"strings"

	"google.golang.org/protobuf/proto"
	"google.golang.org/protobuf/types/descriptorpb"
)

// featSet is the resolved value of the six language features of edition 2023.
type featSet struct {
	presence, enumType, repEnc, utf8, msgEnc, json string
}

func defaultFeatures(syntax string) featSet {
	switch syntax {
	case "proto3":
		return featSet{"IMPLICIT", "OPEN", "PACKED", "VERIFY", "LENGTH_PREFIXED", "ALLOW"}
	case "2023":
		return featSet{"EXPLICIT", "OPEN", "PACKED", "VERIFY", "LENGTH_PREFIXED", "ALLOW"}
	}
	return featSet{"EXPLICIT", "CLOSED", "EXPANDED", "NONE", "LENGTH_PREFIXED", "LEGACY_BEST_EFFORT"}
}

var featureValues = map[string][]string{
	"field_presence":          {"EXPLICIT", "IMPLICIT", "LEGACY_REQUIRED"},
	"enum_type":               {"OPEN", "CLOSED"},
	"repeated_field_encoding": {"PACKED", "EXPANDED"},
	"utf8_validation":         {"VERIFY", "NONE"},
	"message_encoding":        {"LENGTH_PREFIXED", "DELIMITED"},
	"json_format":             {"ALLOW", "LEGACY_BEST_EFFORT"},
}

// featureTargets: the element kinds each feature may be set on (descriptor.proto `targets`).
var featureTargets = map[string]string{
	"field_presence":          "field file",
	"enum_type":               "enum file",
	"repeated_field_encoding": "field file",
	"utf8_validation":         "field file",
	"message_encoding":        "field file",
	"json_format":             "message enum file",
}

func isFeature(name string) bool { return strings.HasPrefix(name, "features.") }

// applyFeature validates one `features.x = V` option set on an element of the given kind, updates
// the resolved set and the FeatureSet message. It returns false if the option was rejected.
func (b *builder) applyFeature(fl *File, o Option, target, where string, fs *featSet, dst **descriptorpb.FeatureSet) bool {
	name := strings.TrimPrefix(o.Name, "features.")
	vals, known := featureValues[name]
	if fl.Syntax != "2023" {
		b.rej("features-outside-editions", "%s: features option in a %s file", where, fl.Syntax)
		return false
	}
	if !known {
		b.rej("feature-unknown", "%s: unknown feature %s", where, name)
		return false
	}
	ok := false
	for _, v := range vals {
		if v == o.Value {
			ok = true
		}
	}
	if !ok {
		b.rej("feature-value", "%s: %s is not a value of features.%s", where, o.Value, name)
		return false
	}
	if !strings.Contains(" "+featureTargets[name]+" ", " "+target+" ") {
		b.rej("feature-target", "%s: features.%s cannot be set on a %s", where, name, target)
		return false
	}
	if *dst == nil {
		*dst = &descriptorpb.FeatureSet{}
	}
	d := *dst
	switch name {
	case "field_presence":
		fs.presence = o.Value
		d.FieldPresence = descriptorpb.FeatureSet_FieldPresence(descriptorpb.FeatureSet_FieldPresence_value[o.Value]).Enum()
	case "enum_type":
		fs.enumType = o.Value
		d.EnumType = descriptorpb.FeatureSet_EnumType(descriptorpb.FeatureSet_EnumType_value[o.Value]).Enum()
	case "repeated_field_encoding":
		fs.repEnc = o.Value
		d.RepeatedFieldEncoding = descriptorpb.FeatureSet_RepeatedFieldEncoding(descriptorpb.FeatureSet_RepeatedFieldEncoding_value[o.Value]).Enum()
	case "utf8_validation":
		fs.utf8 = o.Value
		d.Utf8Validation = descriptorpb.FeatureSet_Utf8Validation(descriptorpb.FeatureSet_Utf8Validation_value[o.Value]).Enum()
	case "message_encoding":
		fs.msgEnc = o.Value
		d.MessageEncoding = descriptorpb.FeatureSet_MessageEncoding(descriptorpb.FeatureSet_MessageEncoding_value[o.Value]).Enum()
	case "json_format":
		fs.json = o.Value
		d.JsonFormat = descriptorpb.FeatureSet_JsonFormat(descriptorpb.FeatureSet_JsonFormat_value[o.Value]).Enum()
	}
	return true
}

// resolveEnumTypes computes, before anything else, whether each enum of the workspace is closed:
// fields are checked before the enums they refer to are visited.
func (b *builder) resolveEnumTypes() {
	b.closed = map[string]bool{}
	for _, fl := range b.ws.Files {
		fileType := defaultFeatures(fl.Syntax).enumType
		for _, o := range fl.Options {
			if o.Name == "features.enum_type" && (o.Value == "OPEN" || o.Value == "CLOSED") && fl.Syntax == "2023" {
				fileType = o.Value
			}
		}
		var inMsg func(scope string, m *Msg)
		enum := func(scope string, e *Enum) {
			t := fileType
			for _, x := range e.Body {
				if o, ok := x.(*Option); ok && o.Name == "features.enum_type" && (o.Value == "OPEN" || o.Value == "CLOSED") && fl.Syntax == "2023" {
					t = o.Value
				}
			}
			b.closed[qual(scope, e.Name)] = t == "CLOSED"
		}
		inMsg = func(scope string, m *Msg) {
			full := qual(scope, m.Name)
			for _, d := range m.Body {
				switch d := d.(type) {
				case *Msg:
					inMsg(full, d)
				case *Enum:
					enum(full, d)
				case *Field:
					if d.Group != nil {
						inMsg(full, d.Group)
					}
				}
			}
		}
		for _, d := range fl.Decls {
			switch d := d.(type) {
			case *Msg:
				inMsg(fl.Package, d)
			case *Enum:
				enum(fl.Package, d)
			}
		}
	}
}

func featureProtoEmpty(f *descriptorpb.FeatureSet) bool { return f == nil || proto.Size(f) == 0 }
