// Package vatomic mirrors the typed values of sync/atomic; every operation is
// a scheduling point and both an acquire and a release (Go atomics are
// sequentially consistent).
package vatomic

import (
	"unsafe"

	"github.com/bufbuild/protocompile/internal/zzverif/coop"
)

type cell struct{ hb coop.Sync }

func (c *cell) op(what string, code uint64) {
	coop.Point(what, nil)
	coop.Acquire(&c.hb)
	_ = code
}

func (c *cell) done(code, obs uint64, wrote bool) {
	coop.Touch(&c.hb, code, obs)
	if wrote {
		coop.Release(&c.hb)
	}
}

type Pointer[T any] struct {
	c cell
	p *T
}

func pv[T any](p *T) uint64 { return uint64(uintptr(unsafe.Pointer(p))) & 1 } // only nil-ness is canonical

func nz[T any](p *T) uint64 {
	if p == nil {
		return 0
	}
	return 1
}

func (x *Pointer[T]) Load() *T {
	x.c.op("atomic.Load", 40)
	v := x.p
	x.c.done(40, nz(v), false)
	return v
}
func (x *Pointer[T]) Store(v *T) {
	x.c.op("atomic.Store", 41)
	x.p = v
	x.c.done(41, nz(v), true)
}
func (x *Pointer[T]) Swap(v *T) *T {
	x.c.op("atomic.Swap", 42)
	old := x.p
	x.p = v
	x.c.done(42, nz(old), true)
	return old
}
func (x *Pointer[T]) CompareAndSwap(old, new *T) bool {
	x.c.op("atomic.CAS", 43)
	if x.p == old {
		x.p = new
		x.c.done(43, 1, true)
		return true
	}
	x.c.done(43, 0, false)
	return false
}

type intT interface{ ~int32 | ~int64 | ~uint32 | ~uint64 | ~uintptr }

type num[T intT] struct {
	c cell
	v T
}

func (x *num[T]) Load() T {
	x.c.op("atomic.Load", 44)
	v := x.v
	x.c.done(44, uint64(v), false)
	return v
}
func (x *num[T]) Store(v T) {
	x.c.op("atomic.Store", 45)
	x.v = v
	x.c.done(45, uint64(v), true)
}
func (x *num[T]) Swap(v T) T {
	x.c.op("atomic.Swap", 46)
	old := x.v
	x.v = v
	x.c.done(46, uint64(old), true)
	return old
}
func (x *num[T]) Add(d T) T {
	x.c.op("atomic.Add", 47)
	x.v += d
	x.c.done(47, uint64(x.v), true)
	return x.v
}
func (x *num[T]) CompareAndSwap(old, new T) bool {
	x.c.op("atomic.CAS", 48)
	if x.v == old {
		x.v = new
		x.c.done(48, 1, true)
		return true
	}
	x.c.done(48, 0, false)
	return false
}
func (x *num[T]) And(m T) T {
	x.c.op("atomic.And", 49)
	old := x.v
	x.v &= m
	x.c.done(49, uint64(old), true)
	return old
}
func (x *num[T]) Or(m T) T {
	x.c.op("atomic.Or", 50)
	old := x.v
	x.v |= m
	x.c.done(50, uint64(old), true)
	return old
}

type Int32 struct{ num[int32] }
type Int64 struct{ num[int64] }
type Uint32 struct{ num[uint32] }
type Uint64 struct{ num[uint64] }
type Uintptr struct{ num[uintptr] }

type Bool struct {
	c cell
	v bool
}

func b2u(b bool) uint64 {
	if b {
		return 1
	}
	return 0
}

func (x *Bool) Load() bool {
	x.c.op("atomic.Load", 51)
	v := x.v
	x.c.done(51, b2u(v), false)
	return v
}
func (x *Bool) Store(v bool) {
	x.c.op("atomic.Store", 52)
	x.v = v
	x.c.done(52, b2u(v), true)
}
func (x *Bool) Swap(v bool) bool {
	x.c.op("atomic.Swap", 53)
	old := x.v
	x.v = v
	x.c.done(53, b2u(old), true)
	return old
}
func (x *Bool) CompareAndSwap(old, new bool) bool {
	x.c.op("atomic.CAS", 54)
	if x.v == old {
		x.v = new
		x.c.done(54, 1, true)
		return true
	}
	x.c.done(54, 0, false)
	return false
}

type Value struct {
	c cell
	v any
}

func (x *Value) Load() any {
	x.c.op("atomic.Load", 55)
	v := x.v
	x.c.done(55, b2u(v != nil), false)
	return v
}
func (x *Value) Store(v any) {
	x.c.op("atomic.Store", 56)
	x.v = v
	x.c.done(56, 0, true)
}
