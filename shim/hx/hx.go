// Package hx is the harness runtime: flags, sharding, counters, samples,
// violations and the JSON result a harness process hands back to vcheck.
package hx

import (
	"encoding/json"
	"flag"
	"fmt"
	"hash/fnv"
	"os"
	"runtime/debug"
	"runtime/metrics"
	"sort"
	"strconv"
	"strings"
	"sync"
	"sync/atomic"
	"time"

	"github.com/bufbuild/protocompile/internal/zzverif/coop"
	"github.com/bufbuild/protocompile/internal/zzverif/tape"
)

type Violation struct {
	Sig    string `json:"sig"`
	Case   string `json:"case"`
	Msg    string `json:"msg"`
	Detail any    `json:"detail,omitempty"`
}

type Result struct {
	Property    string           `json:"property"`
	Tier        string           `json:"tier"`
	Shard       int              `json:"shard"`
	NShards     int              `json:"nshards"`
	Evaluations int64            `json:"evaluations"`
	States      int64            `json:"states"`
	Transitions int64            `json:"transitions"`
	Traces      int64            `json:"traces"`
	NonTrivial  int64            `json:"distinct_nontrivial"`
	Exhaustive  bool             `json:"exhaustive"`
	Caps        []string         `json:"caps,omitempty"`
	Outcomes    map[string]int64 `json:"outcomes,omitempty"`
	Samples     []any            `json:"samples,omitempty"`
	Violations  []Violation      `json:"violations,omitempty"`
	VioCounts   map[string]int64 `json:"violation_counts,omitempty"`
	Extra       map[string]any   `json:"extra,omitempty"`
	Counters    map[string]int64 `json:"counters,omitempty"`
	Infra       []string         `json:"infra,omitempty"`
	Rule        string           `json:"rule,omitempty"`
	Assumptions []string         `json:"assumptions,omitempty"`
	WallS       float64          `json:"wall_s"`
}

// watchdog state: the case that is executing right now and a progress counter.
// A single execution normally takes well under a millisecond; code that spins
// or allocates without ever reaching a scheduling point cannot be seen by the
// scheduler, so a coarse watchdog turns it into a reported violation instead of
// a killed worker.
var (
	wdMu       sync.Mutex
	wdCase     string
	wdProgress atomic.Int64
	wdLast     atomic.Int64 // index of the last NextN case (cheap path, no string)
)

// Running names the case that is about to execute (for the watchdog).
func Running(caseID string) {
	wdMu.Lock()
	wdCase = caseID
	wdMu.Unlock()
	wdProgress.Add(1)
}

func (h *H) watchdog(stall time.Duration, heapLimit uint64) {
	last := wdProgress.Load()
	lastChange := time.Now()
	sample := []metrics.Sample{{Name: "/memory/classes/heap/objects:bytes"}}
	for {
		time.Sleep(250 * time.Millisecond)
		cur := wdProgress.Load()
		if cur != last {
			last, lastChange = cur, time.Now()
		}
		metrics.Read(sample)
		heap := sample[0].Value.Uint64()
		why := ""
		if heap > heapLimit {
			why = fmt.Sprintf("heap grew past %d MiB inside a single execution", heapLimit>>20)
		} else if cur > 0 && time.Since(lastChange) > stall {
			why = fmt.Sprintf("a single execution did not finish within %s", stall)
		}
		if why == "" {
			continue
		}
		wdMu.Lock()
		c := wdCase
		wdMu.Unlock()
		if c == "" {
			c = CaseID(wdLast.Load())
		}
		debug.SetGCPercent(-1)
		h.Violations = append(h.Violations, Violation{Sig: "runaway-execution", Case: c, Msg: "runaway execution (no scheduling point reached): " + why})
		if h.VioCounts == nil {
			h.VioCounts = map[string]int64{}
		}
		h.VioCounts["runaway-execution"]++
		h.Exhaustive = false
		h.Caps = append(h.Caps, "stopped by the watchdog")
		h.WallS = time.Since(h.started).Seconds()
		b, _ := json.Marshal(&h.Result)
		if h.out == "" {
			os.Stdout.Write(b)
		} else {
			os.WriteFile(h.out, b, 0o644)
		}
		if h.Replay != "" {
			fmt.Printf("REPRODUCED sig=runaway-execution case=%s\n  %s\n", c, why)
			os.Exit(1)
		}
		os.Exit(0)
	}
}

type H struct {
	Result
	Seed     int64
	Replay   string // case id to replay ("" = normal run)
	Verbose  bool
	deadline time.Time
	next     int64
	distinct map[uint64]struct{}
	maxSamp  int
	maxVio   int
	out      string
	started  time.Time
	curCase  string
}

func (h *H) Thorough() bool { return h.Tier == "thorough" }

// Main parses flags, runs f and writes the result file.
func Main(prop string, f func(h *H)) {
	h := &H{distinct: map[uint64]struct{}{}, maxSamp: 6, maxVio: 20}
	h.Property = prop
	flag.StringVar(&h.Tier, "tier", "quick", "quick|thorough")
	shard := flag.String("shard", "0/1", "i/n")
	flag.StringVar(&h.out, "out", "", "result file (default stdout)")
	flag.StringVar(&h.Replay, "replay", "", "case id to replay")
	flag.Int64Var(&h.Seed, "seed", 0, "seed (enumeration order only)")
	budget := flag.Duration("budget", 0, "internal deadline (0 = none); reaching it ends the run with exhaustive=false")
	flag.BoolVar(&h.Verbose, "v", false, "verbose")
	flag.Parse()
	fmt.Sscanf(*shard, "%d/%d", &h.Shard, &h.NShards)
	if h.NShards <= 0 {
		h.NShards = 1
	}
	h.started = time.Now()
	if *budget > 0 {
		h.deadline = h.started.Add(*budget)
	}
	h.Exhaustive = true
	h.Outcomes = map[string]int64{}
	h.VioCounts = map[string]int64{}
	h.Extra = map[string]any{}
	h.Counters = map[string]int64{}
	debug.SetGCPercent(400)
	go h.watchdog(60*time.Second, 6<<30)
	func() {
		defer func() {
			if p := recover(); p != nil {
				h.Infra = append(h.Infra, fmt.Sprintf("harness panic in case %q: %v\n%s", h.curCase, p, debug.Stack()))
			}
		}()
		f(h)
	}()
	h.WallS = time.Since(h.started).Seconds()
	b, err := json.Marshal(&h.Result)
	if err != nil {
		fmt.Fprintln(os.Stderr, "marshal:", err)
		os.Exit(2)
	}
	if h.out == "" {
		os.Stdout.Write(b)
		os.Stdout.WriteString("\n")
	} else if err := os.WriteFile(h.out, b, 0o644); err != nil {
		fmt.Fprintln(os.Stderr, err)
		os.Exit(2)
	}
	if len(h.Infra) > 0 {
		os.Exit(2)
	}
	if h.Replay != "" && len(h.Violations) > 0 {
		for _, v := range h.Violations {
			fmt.Printf("REPRODUCED sig=%s case=%s\n  %s\n", v.Sig, v.Case, v.Msg)
		}
		os.Exit(1)
	}
}

// Expired reports that the internal deadline passed; the caller stops
// enumerating and the run is reported as not exhaustive.
func (h *H) Expired() bool {
	if h.deadline.IsZero() {
		return false
	}
	if time.Now().After(h.deadline) {
		h.Cap("internal deadline reached")
		return true
	}
	return false
}

func (h *H) Cap(what string) {
	h.Exhaustive = false
	for _, c := range h.Caps {
		if c == what {
			return
		}
	}
	h.Caps = append(h.Caps, what)
}

// Next assigns the next case index in a deterministic enumeration and reports
// whether this process should run it (sharding / replay). The id is
// "<family>#<index>".
func (h *H) Next(family string) (id string, run bool) {
	i := h.next
	h.next++
	if h.Replay != "" {
		id = family + "#" + strconv.FormatInt(i, 10)
		if id == h.Replay {
			h.curCase = id
			return id, true
		}
		return id, false
	}
	if int(i%int64(h.NShards)) != h.Shard {
		return "", false
	}
	id = family + "#" + strconv.FormatInt(i, 10)
	h.curCase = id
	Running(id)
	return id, true
}

// NextN is Next without building the id string (hot loops); use CaseID to
// render it when needed.
func (h *H) NextN() (idx int64, run bool) {
	i := h.next
	h.next++
	if h.Replay != "" {
		if h.Replay == "#"+strconv.FormatInt(i, 10) {
			Running(h.Replay)
			return i, true
		}
		return i, false
	}
	if int(i%int64(h.NShards)) == h.Shard {
		// past the internal deadline the remaining cases are skipped and the run is reported
		// as not exhaustive (Cap), never as a failure
		if h.Expired() {
			return i, false
		}
		wdProgress.Add(1)
		wdLast.Store(i)
		return i, true
	}
	return i, false
}

func CaseID(idx int64) string { return "#" + strconv.FormatInt(idx, 10) }

// Scenario reports whether a named scenario should run in this process:
// in replay mode only the scenario named in the case id ("name|tape").
func (h *H) Scenario(name string) bool {
	if h.Replay != "" {
		return strings.HasPrefix(h.Replay, name+"|")
	}
	return true
}

func (h *H) Eval(n int64)  { h.Evaluations += n }
func (h *H) State(n int64) { h.States += n }
func (h *H) Trans(n int64) { h.Transitions += n }
func (h *H) Trace(n int64) { h.Traces += n }
func (h *H) Count(k string, n int64) {
	h.Counters[k] += n
}

// Distinct counts a non-trivial case once per distinct key.
func (h *H) Distinct(key string) bool {
	f := fnv.New64a()
	f.Write([]byte(key))
	k := f.Sum64()
	if _, ok := h.distinct[k]; ok {
		return false
	}
	h.distinct[k] = struct{}{}
	h.NonTrivial++
	return true
}

func (h *H) DistinctN(k uint64) bool {
	if _, ok := h.distinct[k]; ok {
		return false
	}
	h.distinct[k] = struct{}{}
	h.NonTrivial++
	return true
}

func (h *H) Outcome(o string) { h.Outcomes[o]++ }

func (h *H) Sample(v any) {
	if len(h.Samples) < h.maxSamp {
		h.Samples = append(h.Samples, v)
	}
}

func (h *H) WantSample() bool { return len(h.Samples) < h.maxSamp }

func (h *H) Violate(sig, caseID, msg string, detail any) {
	h.VioCounts[sig]++
	if h.VioCounts[sig] > 2 || len(h.Violations) >= h.maxVio {
		return
	}
	h.Violations = append(h.Violations, Violation{Sig: sig, Case: caseID, Msg: msg, Detail: detail})
}

// TooMany reports that enough violations were collected to stop early.
func (h *H) TooMany() bool { return len(h.Violations) >= h.maxVio }

// ---- schedule / tape exploration ----

type Scn struct {
	Name    string
	Bounds  tape.Bounds
	Prune   bool
	Split   int   // 0: whole scenario belongs to one shard (round robin); >0: split subtrees at this depth
	MaxExec int64 // per-process cap (0 = none)
	Body    func(r *tape.Run)
}

var scnCounter int

// Explore runs the tape explorer on a scenario and folds the statistics into
// the result. Violations are re-executed 5 times from their tape first; a
// replay that behaves differently is an infrastructure error, not a violation.
func (h *H) Explore(sc Scn) *tape.Stats {
	if h.Replay != "" {
		if !strings.HasPrefix(h.Replay, sc.Name+"|") {
			return nil
		}
		tp := parseTape(strings.TrimPrefix(h.Replay, sc.Name+"|"))
		Running(h.Replay)
		r := tape.Replay(sc.Body, tp)
		h.Eval(1)
		if r.Diverged != "" {
			h.Infra = append(h.Infra, "replay diverged: "+r.Diverged)
		}
		if r.Failure != "" {
			h.Violate(r.Sig, h.Replay, r.Failure, r.Notes)
		}
		fmt.Printf("replayed %s: %d choice points, outcome=%q failure=%q\n", sc.Name, len(r.Points), r.Outcome, r.Failure)
		return nil
	}
	idx := scnCounter
	scnCounter++
	ex := &tape.Explorer{Bounds: sc.Bounds, Body: sc.Body, Prune: sc.Prune, MaxExecs: sc.MaxExec}
	ex.OnStart = func(prefix []int) { Running(sc.Name + "|" + fmtTape(prefix)) }
	if sc.Split > 0 {
		ex.Shard, ex.NShards, ex.SplitDepth = h.Shard, h.NShards, sc.Split
	} else if idx%h.NShards != h.Shard {
		return nil
	}
	h.curCase = sc.Name
	ex.Explore()
	st := ex.Stats
	h.Evaluations += st.Execs
	h.Traces += st.Execs
	h.Transitions += st.Points
	h.States += int64(len(st.States))
	if len(st.States) == 0 {
		h.States += st.Execs // without state keys every execution is its own state
	}
	h.NonTrivial += st.NonTrivial
	h.Counters["pruned"] += st.Pruned
	if st.MaxDepth > int(h.Counters["max_depth"]) {
		h.Counters["max_depth"] = int64(st.MaxDepth)
	}
	for k := range st.Deviations {
		for d, n := range st.Deviations[k] {
			if n > 0 {
				h.Counters[fmt.Sprintf("%s_dev%d", tape.Kind(k), d)] += n
			}
		}
	}
	for o, n := range st.Outcomes {
		h.Outcomes[sc.Name+": "+o] += n
	}
	if st.Capped {
		h.Cap(fmt.Sprintf("%s: execution cap %d", sc.Name, sc.MaxExec))
	}
	for _, d := range st.Diverged {
		h.Infra = append(h.Infra, sc.Name+": replay diverged: "+d)
	}
	for _, f := range st.Failures {
		tp := f.Trimmed()
		ok := true
		for i := 0; i < 5; i++ {
			r := tape.Replay(sc.Body, tp)
			if r.Failure != f.Failure || r.Sig != f.Sig {
				ok = false
				h.Infra = append(h.Infra, fmt.Sprintf("%s: violation did not replay deterministically: %q vs %q tape=%v", sc.Name, f.Failure, r.Failure, tp))
				break
			}
		}
		if ok {
			h.Violate(f.Sig, sc.Name+"|"+fmtTape(tp), f.Failure, f.Notes)
		}
	}
	if h.WantSample() && st.Execs > 0 {
		h.Sample(map[string]any{"scenario": sc.Name, "bounds": fmt.Sprint(sc.Bounds), "executions": st.Execs, "choice_points_max": st.MaxDepth, "outcomes": len(st.Outcomes)})
	}
	return st
}

func fmtTape(t []int) string {
	s := make([]string, len(t))
	for i, v := range t {
		s[i] = strconv.Itoa(v)
	}
	return strings.Join(s, ",")
}

func parseTape(s string) []int {
	if s == "" {
		return nil
	}
	var out []int
	for _, p := range strings.Split(s, ",") {
		v, _ := strconv.Atoi(p)
		out = append(out, v)
	}
	return out
}

// RunCoop runs body under the scheduler with the tape of r and returns the
// scheduler outcome.
func RunCoop(r *tape.Run, horizon int, body func()) *coop.Sched {
	return coop.Run(tape.C{R: r}, horizon, body)
}

// SortedKeys is a small helper for deterministic iteration.
func SortedKeys[V any](m map[string]V) []string {
	ks := make([]string, 0, len(m))
	for k := range m {
		ks = append(ks, k)
	}
	sort.Strings(ks)
	return ks
}
