// Package coop is the controlled cooperative scheduler (DESIGN.md §2.2).
//
// Managed goroutines ("threads") run one at a time. At each visible operation
// a thread parks and the scheduler picks the next thread among the enabled
// ones by asking the choice tape. Blocking is modelled with wait predicates,
// never spun; "no enabled thread" is a deadlock, "only yielders" a livelock.
package coop

import (
	"fmt"
	"hash/fnv"
	"os"
	"reflect"
	"runtime"
	"sort"
	"strings"
	"unsafe"
)

// Chooser is the tape interface the scheduler needs.
type Chooser interface {
	Choose(n int, kind uint8, cost int) int
	// NeedKey reports that the choice just made was the last one of the
	// replayed prefix and no state key has been recorded for it yet.
	NeedKey() bool
	SetKey(k uint64)
}

const (
	kindPreempt = 0
	kindOrder   = 3
)

type VC []uint32

func (a VC) join(b VC) VC {
	if len(b) > len(a) {
		na := make(VC, len(b))
		copy(na, a)
		a = na
	}
	for i, v := range b {
		if v > a[i] {
			a[i] = v
		}
	}
	return a
}

func (a VC) get(i int) uint32 {
	if i < len(a) {
		return a[i]
	}
	return 0
}

// Sync is the happens-before state of one synchronisation object.
type Sync struct {
	vc  VC
	key uint64 // canonical identity for state keys (0 = not yet assigned)
	ver uint64 // hash of the access history of this object
}

type Thread struct {
	id      int
	wake    chan struct{}
	wait    func() bool
	what    string
	done    bool
	started bool
	yieldAt int64
	yielded bool
	vc      VC
	hist    uint64 // hash of this thread's visible-operation history
	key     uint64 // canonical thread identity
	nspawn  int
}

type Sched struct {
	threads []*Thread
	cur     *Thread
	parked  chan *Thread
	ch      Chooser
	steps   int
	ops     int64 // visible operations performed (yields excluded)
	writes  int64 // state-changing operations performed (stores, unlocks, closes, ...)
	Horizon int
	killed  bool
	Out     Outcome
	shadow  map[uintptr]*shadow
	chans   map[uintptr]*chanEnt
	// NoRace disables the watched-field monitor.
	NoRace bool
}

// Outcome is what the scheduler itself observed about one execution.
type Outcome struct {
	Deadlock bool
	Livelock bool
	Horizon  bool
	Blocked  []string // what each stuck thread was waiting for
	Crashes  []string // panics that escaped a thread's top function
	Races    []string
	Steps    int
	Threads  int
}

func (o *Outcome) Hung() bool { return o.Deadlock || o.Livelock || o.Horizon }

// S is the active scheduler (nil outside Run). Exactly one managed goroutine
// runs at any time, so S.cur identifies the caller of every shim operation.
var S *Sched

func Active() bool { return S != nil }

// Trace prints every scheduling step (replay / debugging).
var Trace = os.Getenv("COOP_TRACE") != ""

type killT struct{}

// Run executes body as the main thread and keeps scheduling until every thread
// has finished (or the execution is declared hung).
func Run(ch Chooser, horizon int, body func()) *Sched {
	if S != nil {
		panic("coop: nested Run")
	}
	if horizon <= 0 {
		horizon = 20000
	}
	s := &Sched{ch: ch, parked: make(chan *Thread), Horizon: horizon, shadow: map[uintptr]*shadow{}, chans: map[uintptr]*chanEnt{}}
	S = s
	defer func() { S = nil }()
	main := s.newThread(nil, body)
	s.cur = main
	for {
		var en []*Thread
		alive := 0
		for _, t := range s.threads {
			if t.done {
				continue
			}
			alive++
			if t.wait == nil || t.wait() {
				en = append(en, t)
			}
		}
		if alive == 0 {
			break
		}
		if len(en) == 0 {
			yield := false
			for _, t := range s.threads {
				if !t.done {
					s.Out.Blocked = append(s.Out.Blocked, fmt.Sprintf("T%d:%s", t.id, t.what))
					if t.yielded {
						yield = true
					}
				}
			}
			if yield {
				s.Out.Livelock = true
			} else {
				s.Out.Deadlock = true
			}
			s.kill()
			break
		}
		// canonical order: current thread first if enabled, then ascending ids
		cost := 0
		for i, t := range en {
			if t == s.cur {
				copy(en[1:i+1], en[:i])
				en[0] = t
				cost = 1
				break
			}
		}
		idx := 0
		if len(en) > 1 {
			idx = ch.Choose(len(en), kindPreempt, cost)
			if ch.NeedKey() {
				ch.SetKey(mix(s.StateKey(), en[idx].key, 1))
			}
		}
		t := en[idx]
		s.cur = t
		s.steps++
		if s.steps > s.Horizon {
			s.Out.Horizon = true
			s.kill()
			break
		}
		t.started = true
		if Trace {
			fmt.Printf("  step %3d: T%d resumes at %s (enabled %d)\n", s.steps, t.id, t.what, len(en))
		}
		t.wake <- struct{}{}
		<-s.parked
	}
	s.Out.Steps = s.steps
	s.Out.Threads = len(s.threads)
	return s
}

func (s *Sched) kill() {
	s.killed = true
	for _, t := range s.threads {
		if t.done {
			continue
		}
		s.cur = t
		t.wake <- struct{}{}
		<-s.parked
	}
}

func (s *Sched) newThread(parent *Thread, f func()) *Thread {
	t := &Thread{id: len(s.threads), wake: make(chan struct{})}
	if parent != nil {
		t.vc = append(VC(nil), parent.vc...)
		parent.nspawn++
		t.key = mix(parent.hist, uint64(parent.nspawn), 0x5eed)
		parent.tick()
	} else {
		t.key = 1
	}
	t.hist = t.key
	for len(t.vc) <= t.id {
		t.vc = append(t.vc, 0)
	}
	t.vc[t.id] = 1
	s.threads = append(s.threads, t)
	go func() {
		<-t.wake
		defer func() {
			if p := recover(); p != nil {
				if _, ok := p.(killT); !ok {
					s.Out.Crashes = append(s.Out.Crashes, fmt.Sprintf("T%d: %v", t.id, p))
				}
			}
			t.done = true
			t.wait = nil
			s.parked <- t
		}()
		if s.killed {
			return
		}
		f()
	}()
	return t
}

func (t *Thread) tick() {
	for len(t.vc) <= t.id {
		t.vc = append(t.vc, 0)
	}
	t.vc[t.id]++
}

// Go spawns a managed thread. Not a scheduling point: the child becomes
// enabled and runs when the scheduler picks it.
func Go(f func()) {
	s := S
	if s == nil {
		go f()
		return
	}
	s.newThread(s.cur, f)
}

// Point is a visible operation: park, let the scheduler decide, resume when
// picked (the wait predicate is true at that moment).
func Point(what string, wait func() bool) {
	s := S
	if s == nil {
		return
	}
	if s.killed {
		runtime.Goexit()
	}
	t := s.cur
	t.wait = wait
	t.what = what
	if Trace {
		t.what = what + " @ " + callSite()
	}
	s.parked <- t
	<-t.wake
	if s.killed {
		runtime.Goexit()
	}
	t.wait = nil
	t.yielded = false
	s.ops++
}

// callSite returns the first frames outside the verification shims.
func callSite() string {
	pcs := make([]uintptr, 24)
	n := runtime.Callers(3, pcs)
	fr := runtime.CallersFrames(pcs[:n])
	var out []string
	for {
		f, more := fr.Next()
		if !strings.Contains(f.File, "/shim/") && !strings.Contains(f.File, "zzverif") && !strings.Contains(f.File, "/instr/sema/") || strings.Contains(f.File, "/harness/") {
			fn := f.Function
			if i := strings.LastIndex(fn, "/"); i >= 0 {
				fn = fn[i+1:]
			}
			out = append(out, fmt.Sprintf("%s:%d", fn, f.Line))
			if len(out) == 3 {
				break
			}
		}
		if !more {
			break
		}
	}
	return strings.Join(out, " < ")
}

// Yield is what runtime.Gosched in a spin loop becomes: the spinner is
// disabled until some other thread performs a visible operation.
func Yield() {
	s := S
	if s == nil {
		runtime.Gosched()
		return
	}
	if s.killed {
		runtime.Goexit()
	}
	t := s.cur
	// A spinner waits for a state change. Reads performed by other spinners
	// must not wake it, otherwise two spinners can starve the thread they are
	// both waiting for (an unfair schedule the Go scheduler never produces).
	at := s.writes
	t.yielded = true
	t.what = "yield"
	t.wait = func() bool { return s.writes > at }
	s.parked <- t
	<-t.wake
	if s.killed {
		runtime.Goexit()
	}
	t.wait = nil
}

// Wrote is called by the shims after every state-changing operation.
func Wrote() {
	if s := S; s != nil {
		s.writes++
	}
}

// Step is an explicit scheduling point with no blocking condition (used by
// harness code, e.g. inside reporter callbacks).
func Step(what string) { Point(what, nil) }

// ---- happens-before bookkeeping used by the shims ----

// Acquire joins the object's clock into the current thread.
func Acquire(o *Sync) {
	s := S
	if s == nil {
		return
	}
	t := s.cur
	t.vc = t.vc.join(o.vc)
}

// Release publishes the current thread's clock into the object.
func Release(o *Sync) {
	s := S
	if s == nil {
		return
	}
	t := s.cur
	o.vc = append(VC(nil), o.vc.join(t.vc)...)
	t.tick()
	s.writes++
}

// Touch records an access to a synchronisation object in the canonical
// (Mazurkiewicz) state key: the thread history absorbs the object's history
// and vice versa. obs is the value the operation observed (0 if none).
func Touch(o *Sync, op uint64, obs uint64) {
	s := S
	if s == nil {
		return
	}
	t := s.cur
	if o.key == 0 {
		o.key = mix(t.hist, op, 0x0b7ec7)
		o.ver = o.key
	}
	h := mix(t.hist, o.ver, op*1315423911+obs)
	t.hist = h
	o.ver = h
}

// TouchLocal records a thread-local visible event (no shared object).
func TouchLocal(op uint64, obs uint64) {
	s := S
	if s == nil {
		return
	}
	t := s.cur
	t.hist = mix(t.hist, op, obs)
}

func mix(a, b, c uint64) uint64 {
	h := a*0x9E3779B97F4A7C15 ^ (b + 0x7F4A7C159E3779B9 + (a << 6) + (a >> 2))
	h = h*0xBF58476D1CE4E5B9 ^ (c + 0x94D049BB133111EB + (h << 6) + (h >> 2))
	h ^= h >> 31
	return h * 0xD6E8FEB86659FD93
}

// StateKey is the canonical key of the execution so far: the set of thread
// histories (each absorbs the histories of the objects it touched, i.e. the
// happens-before past of the thread) plus which thread holds the token.
func (s *Sched) StateKey() uint64 {
	hs := make([]uint64, 0, len(s.threads))
	for _, t := range s.threads {
		st := uint64(0)
		if t.done {
			st = 1
		}
		hs = append(hs, mix(t.key, t.hist, st))
	}
	sort.Slice(hs, func(i, j int) bool { return hs[i] < hs[j] })
	h := fnv.New64a()
	for _, v := range hs {
		fmt.Fprintf(h, "%x,", v)
	}
	if s.cur != nil {
		fmt.Fprintf(h, "cur=%x", s.cur.key)
	}
	k := h.Sum64()
	if k == 0 {
		k = 1
	}
	return k
}

// ---- channels ----

type chanEnt struct {
	Sync
	ref any // keeps the channel alive so its address is not reused
}

func (s *Sched) chanSync(v reflect.Value) *Sync {
	k := v.Pointer()
	o := s.chans[k]
	if o == nil {
		o = &chanEnt{ref: v.Interface()}
		s.chans[k] = o
	}
	return &o.Sync
}

// Close replaces the builtin close on channels.
func Close[T any](c chan<- T) {
	s := S
	if s == nil {
		close(c)
		return
	}
	Point("close", nil)
	o := s.chanSync(reflect.ValueOf(c))
	Touch(o, 11, 0)
	Release(o)
	close(c)
}

func chanReady(v reflect.Value) bool {
	if v.IsNil() {
		return false
	}
	if v.Len() > 0 {
		return true
	}
	x, ok := v.TryRecv()
	if ok {
		panic("coop: value received while polling; unbuffered rendezvous is not supported")
	}
	return x.IsValid() // valid zero value + !ok = closed
}

func (s *Sched) acquireChan(c reflect.Value) {
	if o, ok := s.chans[c.Pointer()]; ok {
		Touch(&o.Sync, 12, 0)
		Acquire(&o.Sync)
		return
	}
	// closed by code the scheduler did not see (context package): join all
	// threads' clocks; this can hide a race, never invent one.
	t := s.cur
	for _, u := range s.threads {
		t.vc = t.vc.join(u.vc)
	}
	o := s.chanSync(c)
	Touch(o, 12, 0)
}

// Recv replaces a receive expression.
func Recv[T any](c <-chan T) T {
	s := S
	if s == nil {
		return <-c
	}
	v := reflect.ValueOf(c)
	Point("recv", func() bool { return chanReady(v) })
	s.acquireChan(v)
	return <-c
}

// Recv2 replaces `v, ok := <-c`.
func Recv2[T any](c <-chan T) (T, bool) {
	s := S
	if s == nil {
		x, ok := <-c
		return x, ok
	}
	v := reflect.ValueOf(c)
	Point("recv", func() bool { return chanReady(v) })
	s.acquireChan(v)
	x, ok := <-c
	return x, ok
}


// Send replaces a send statement (buffered channels only).
func Send[T any](c chan<- T, x T) {
	s := S
	if s == nil {
		c <- x
		return
	}
	if cap(c) == 0 {
		panic("coop: send on unbuffered channel is not supported")
	}
	Point("send", func() bool { return len(c) < cap(c) })
	o := s.chanSync(reflect.ValueOf(c))
	Touch(o, 13, 0)
	Release(o)
	c <- x
}

// Select replaces a select statement whose arms are all receives. It returns
// the index of the arm to take (-1 = default). The arm's body performs the
// real receive, which cannot block because readiness was just established and
// no other thread runs in between.
func Select(hasDefault bool, chans ...any) int {
	s := S
	vs := make([]reflect.Value, len(chans))
	for i, c := range chans {
		vs[i] = reflect.ValueOf(c)
	}
	if s == nil {
		// No scheduler: a real select. Only close-only channels are supported
		// here, because the arm body repeats the receive.
		cases := make([]reflect.SelectCase, 0, len(vs)+1)
		for _, v := range vs {
			cases = append(cases, reflect.SelectCase{Dir: reflect.SelectRecv, Chan: v})
		}
		if hasDefault {
			cases = append(cases, reflect.SelectCase{Dir: reflect.SelectDefault})
		}
		i, _, ok := reflect.Select(cases)
		if i == len(vs) {
			return -1
		}
		if ok {
			panic("coop: Select outside a managed run consumed a value")
		}
		return i
	}
	ready := func() []int {
		var r []int
		for i, v := range vs {
			if v.IsValid() && v.Kind() == reflect.Chan && chanReady(v) {
				r = append(r, i)
			}
		}
		return r
	}
	if hasDefault {
		Point("select-default", nil)
	} else {
		Point("select", func() bool { return len(ready()) > 0 })
	}
	r := ready()
	if len(r) == 0 {
		TouchLocal(14, 0)
		return -1
	}
	k := 0
	if len(r) > 1 {
		k = s.ch.Choose(len(r), kindOrder, 1)
		if s.ch.NeedKey() {
			s.ch.SetKey(mix(s.StateKey(), uint64(r[k]), 2))
		}
	}
	i := r[k]
	s.acquireChan(vs[i])
	TouchLocal(15, uint64(i))
	return i
}

// OrderChoice returns an explorer-chosen number in [0,n): the order in which an unordered
// collection is visited (0 is the default; any other answer costs one "order" deviation).
func OrderChoice(n int) int {
	s := S
	if s == nil || n <= 1 {
		return 0
	}
	k := s.ch.Choose(n, kindOrder, 1)
	if s.ch.NeedKey() {
		s.ch.SetKey(mix(s.StateKey(), uint64(k), 4))
	}
	TouchLocal(17, uint64(k))
	return k
}

// Chose must be called by harness code right after it consumed a tape choice of
// its own (fault injection etc.) while a scheduler is active, so that the
// choice enters the canonical state key.
func Chose(ch Chooser, c int) {
	s := S
	if s == nil {
		return
	}
	if ch.NeedKey() {
		ch.SetKey(mix(s.StateKey(), uint64(c), 3))
	}
	TouchLocal(16, uint64(c))
}

// ---- watched-field race monitor (FastTrack-style) ----

type epoch struct {
	tid  int32
	clk  uint32
	site string
}

type shadow struct {
	w     epoch
	hasW  bool
	reads []epoch // at most one per thread
}

// Watch records an access to a watched location (FastTrack-style check against
// the vector clocks maintained by the shims).
func Watch[T any](p *T, write bool, site string) {
	s := S
	if s == nil || s.NoRace || p == nil {
		return
	}
	addr := uintptr(unsafe.Pointer(p))
	t := s.cur
	sh := s.shadow[addr]
	if sh == nil {
		sh = &shadow{}
		s.shadow[addr] = sh
	}
	tid := int32(t.id)
	if sh.hasW && sh.w.tid != tid && sh.w.clk > t.vc.get(int(sh.w.tid)) {
		kind := "read"
		if write {
			kind = "write"
		}
		s.race(kind + " at " + site + " races with write at " + sh.w.site)
	}
	if write {
		for _, r := range sh.reads {
			if r.tid != tid && r.clk > t.vc.get(int(r.tid)) {
				s.race("write at " + site + " races with read at " + r.site)
			}
		}
		sh.w = epoch{tid: tid, clk: t.vc.get(t.id), site: site}
		sh.hasW = true
		sh.reads = sh.reads[:0]
		return
	}
	for i := range sh.reads {
		if sh.reads[i].tid == tid {
			sh.reads[i].clk = t.vc.get(t.id)
			sh.reads[i].site = site
			return
		}
	}
	sh.reads = append(sh.reads, epoch{tid: tid, clk: t.vc.get(t.id), site: site})
}

func (s *Sched) race(msg string) {
	for _, r := range s.Out.Races {
		if r == msg {
			return
		}
	}
	s.Out.Races = append(s.Out.Races, msg)
}

// Describe renders an outcome for messages.
func (o *Outcome) Describe() string {
	var b strings.Builder
	if o.Deadlock {
		fmt.Fprintf(&b, "deadlock %v ", o.Blocked)
	}
	if o.Livelock {
		fmt.Fprintf(&b, "livelock %v ", o.Blocked)
	}
	if o.Horizon {
		fmt.Fprintf(&b, "step horizon exceeded ")
	}
	if len(o.Crashes) > 0 {
		fmt.Fprintf(&b, "crash %v ", o.Crashes)
	}
	if len(o.Races) > 0 {
		fmt.Fprintf(&b, "race %v ", o.Races)
	}
	return strings.TrimSpace(b.String())
}
