// Package tape is the choice-tape explorer (DESIGN.md §2.1).
//
// A body is an ordinary function that asks the tape for every decision it
// needs (which thread runs next, whether a fault is injected, which input
// alternative is taken). Index 0 is always the default. The explorer runs the
// body with a prefix that is replayed verbatim followed by defaults, records
// every choice point, and then recurses on every alternative after the prefix
// whose accumulated deviation cost stays inside the per-kind bounds. This is
// iterative context bounding (Musuvathi/Qadeer) generalised to several
// deviation kinds. It is stateless: a successor is "fresh instance + replayed
// prefix + one alternative".
package tape

import (
	"fmt"
	"hash/fnv"
)

type Kind uint8

const (
	Preempt Kind = iota // scheduling: switching away from a runnable thread
	Fault               // environment answers: injected error / panic / short read
	Input               // departure from the default input
	Order               // unordered-collection order, select arm choice
	NKinds
)

var kindNames = [...]string{"preempt", "fault", "input", "order"}

func (k Kind) String() string { return kindNames[k] }

// Point is one recorded choice point.
type Point struct {
	N      int
	Kind   Kind
	Cost   int // cost of every non-default alternative (0 or 1)
	Chosen int
}

// Run is one execution.
type Run struct {
	Prefix []int
	Points []Point
	// Failure is the oracle verdict for this execution ("" = property held).
	Failure string
	// Sig is the finding signature of the failure (see known_findings.json).
	Sig   string
	Notes map[string]any
	// Diverged is set if the prefix could not be replayed (infrastructure error).
	Diverged string
	// Key, when non-zero, is a canonical key of the state reached right after
	// the last prefix choice was consumed (used for pruning).
	KeyAtPrefix uint64
	needKey     bool
	// Outcome is a digest of the observable outcome (for distinct-outcome stats).
	Outcome string
}

// Choose returns the decision at this point: the prefix entry while replaying,
// 0 afterwards.
func (r *Run) Choose(n int, kind Kind, cost int) int {
	if n <= 1 {
		return 0
	}
	i := len(r.Points)
	c := 0
	if i < len(r.Prefix) {
		c = r.Prefix[i]
		if c < 0 || c >= n {
			if r.Diverged == "" {
				r.Diverged = fmt.Sprintf("choice %d: prefix wants %d of %d (%s)", i, c, n, kind)
			}
			c = 0
		}
	}
	r.Points = append(r.Points, Point{N: n, Kind: kind, Cost: cost, Chosen: c})
	r.needKey = i+1 == len(r.Prefix)
	return c
}

// NeedKey / SetKey: the scheduler (or harness) records the canonical key of
// the state reached by the last prefix choice; used for pruning.
func (r *Run) NeedKey() bool { return r.needKey }
func (r *Run) SetKey(k uint64) {
	if k == 0 {
		k = 1
	}
	r.KeyAtPrefix = k
	r.needKey = false
}

// C adapts a Run to the scheduler's Chooser interface.
type C struct{ R *Run }

func (c C) Choose(n int, kind uint8, cost int) int { return c.R.Choose(n, Kind(kind), cost) }
func (c C) NeedKey() bool                          { return c.R.NeedKey() }
func (c C) SetKey(k uint64)                        { c.R.SetKey(k) }

// Fail records an oracle violation (first one wins).
func (r *Run) Fail(sig, format string, args ...any) {
	if r.Failure == "" {
		r.Failure = fmt.Sprintf(format, args...)
		r.Sig = sig
	}
}

func (r *Run) Note(k string, v any) {
	if r.Notes == nil {
		r.Notes = map[string]any{}
	}
	r.Notes[k] = v
}

// Choices returns the full tape of this run.
func (r *Run) Choices() []int {
	out := make([]int, len(r.Points))
	for i, p := range r.Points {
		out[i] = p.Chosen
	}
	return out
}

// Trimmed returns the tape without trailing defaults.
func (r *Run) Trimmed() []int {
	c := r.Choices()
	n := len(c)
	for n > 0 && c[n-1] == 0 {
		n--
	}
	return c[:n]
}

type Bounds [NKinds]int // -1 = unbounded

func B(preempt, fault, input, order int) Bounds { return Bounds{preempt, fault, input, order} }

// Stats accumulates what an exploration covered.
type Stats struct {
	Execs       int64
	Points      int64 // choice points met (transitions of the choice tree)
	MaxDepth    int
	Pruned      int64
	Deviations  [NKinds][8]int64 // histogram of deviations used per kind (capped at 7)
	States      map[uint64]struct{}
	Outcomes    map[string]int64
	Failures    []*Run
	Capped      bool
	Diverged    []string
	NonTrivial  int64 // executions with >=1 deviation whose (outcome,state) is new
	ntSeen      map[uint64]struct{}
	MaxFailures int
}

func NewStats() *Stats {
	return &Stats{States: map[uint64]struct{}{}, Outcomes: map[string]int64{}, ntSeen: map[uint64]struct{}{}, MaxFailures: 5}
}

// Explorer enumerates all tapes within Bounds.
type Explorer struct {
	Bounds   Bounds
	Body     func(r *Run)
	MaxExecs int64 // 0 = no cap
	Prune    bool  // prune prefixes whose KeyAtPrefix was already expanded with >= budget
	Shard    int
	NShards  int
	// SplitDepth: nodes at this tree depth root the subtrees that are dealt
	// round-robin to shards; shallower nodes are executed by every shard but
	// counted only by shard 0.
	SplitDepth int
	Stats      *Stats
	// OnStart is called with the prefix of every execution before it runs
	// (used by the harness watchdog to name a runaway execution).
	OnStart func(prefix []int)
	seen    map[uint64]Bounds
	unit       int
}

type node struct {
	prefix []int
	depth  int
	owned  bool // inside a subtree owned by this shard
}

func (e *Explorer) Explore() {
	if e.NShards <= 0 {
		e.NShards = 1
	}
	if e.Stats == nil {
		e.Stats = NewStats()
	}
	if e.Prune {
		e.seen = map[uint64]Bounds{}
	}
	stack := []node{{prefix: nil, depth: 0, owned: e.NShards == 1 || e.SplitDepth == 0 && e.Shard == 0}}
	if e.NShards > 1 && e.SplitDepth == 0 && e.Shard != 0 {
		return
	}
	for len(stack) > 0 {
		nd := stack[len(stack)-1]
		stack = stack[:len(stack)-1]
		if e.MaxExecs > 0 && e.Stats.Execs >= e.MaxExecs {
			e.Stats.Capped = true
			return
		}
		r := &Run{Prefix: nd.prefix}
		if e.OnStart != nil {
			e.OnStart(nd.prefix)
		}
		e.Body(r)
		counted := nd.owned || e.Shard == 0
		if r.Diverged != "" {
			e.Stats.Diverged = append(e.Stats.Diverged, fmt.Sprintf("%v: %s", nd.prefix, r.Diverged))
			continue
		}
		if len(r.Points) < len(nd.prefix) {
			e.Stats.Diverged = append(e.Stats.Diverged, fmt.Sprintf("%v: run ended after %d choices", nd.prefix, len(r.Points)))
			continue
		}
		if counted {
			e.account(r)
		}
		// budget used by the prefix part
		var used Bounds
		for i := 0; i < len(nd.prefix); i++ {
			p := r.Points[i]
			if p.Chosen != 0 {
				used[p.Kind] += p.Cost
			}
		}
		if e.Prune && r.KeyAtPrefix != 0 && len(nd.prefix) > 0 {
			if prev, ok := e.seen[r.KeyAtPrefix]; ok && nd.owned && dominates(prev, used, e.Bounds) {
				e.Stats.Pruned++
				continue
			}
			e.seen[r.KeyAtPrefix] = used
		}
		if len(e.Stats.Failures) >= e.Stats.MaxFailures {
			return
		}
		// push in reverse so that exploration order is "earliest point, smallest alt first"
		var kids [][]int
		u := used
		for i := len(nd.prefix); i < len(r.Points); i++ {
			p := r.Points[i]
			if p.Cost == 0 || e.Bounds[p.Kind] < 0 || u[p.Kind]+p.Cost <= e.Bounds[p.Kind] {
				for alt := 1; alt < p.N; alt++ {
					np := make([]int, i+1)
					for j := 0; j < i; j++ {
						np[j] = r.Points[j].Chosen
					}
					np[i] = alt
					kids = append(kids, np)
				}
			}
			// the run itself took the default at i (cost 0), so u is unchanged
		}
		for k := len(kids) - 1; k >= 0; k-- {
			child := node{prefix: kids[k], depth: nd.depth + 1, owned: nd.owned}
			if !nd.owned && e.NShards > 1 {
				if child.depth == e.SplitDepth {
					// position k among siblings is deterministic across shards
					e.unit++
					if (e.unit % e.NShards) != e.Shard {
						continue
					}
					child.owned = true
				}
			}
			stack = append(stack, child)
		}
	}
}

// dominates reports whether a previous visit with budget use prev makes a visit
// with use cur redundant (prev used no more of every bounded kind).
func dominates(prev, cur, b Bounds) bool {
	for k := range prev {
		if b[k] >= 0 && prev[k] > cur[k] {
			return false
		}
	}
	return true
}

func (e *Explorer) account(r *Run) {
	s := e.Stats
	s.Execs++
	s.Points += int64(len(r.Points))
	if len(r.Points) > s.MaxDepth {
		s.MaxDepth = len(r.Points)
	}
	var dev [NKinds]int
	ndev := 0
	h := fnv.New64a()
	for _, p := range r.Points {
		if p.Chosen != 0 {
			dev[p.Kind]++
			ndev++
		}
	}
	for k := range dev {
		d := dev[k]
		if d > 7 {
			d = 7
		}
		s.Deviations[k][d]++
	}
	if r.KeyAtPrefix != 0 {
		s.States[r.KeyAtPrefix] = struct{}{}
	}
	s.Outcomes[r.Outcome]++
	if ndev > 0 {
		fmt.Fprintf(h, "%s|%d", r.Outcome, r.KeyAtPrefix)
		if r.KeyAtPrefix == 0 {
			fmt.Fprint(h, r.Trimmed())
		}
		k := h.Sum64()
		if _, ok := s.ntSeen[k]; !ok {
			s.ntSeen[k] = struct{}{}
			s.NonTrivial++
		}
	}
	if r.Failure != "" && len(s.Failures) < s.MaxFailures {
		s.Failures = append(s.Failures, r)
	}
}

// Replay runs the body once with the given tape.
func Replay(body func(r *Run), tp []int) *Run {
	r := &Run{Prefix: tp}
	body(r)
	return r
}
